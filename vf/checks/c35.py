"""C35 - parsers terminate on every input.

Statement: parsing any byte string as a DEX file, binary XML document, resource table or APK finishes in time
bounded by the input size, either producing a result or raising an error; no input makes a parser loop forever.

Targets (bytes -> None, any exception allowed):
  dex   dex.DEX(buf) + get_classes / get_methods / get_fields / get_strings and, for a bounded number of methods,
        get_instructions (<= 4096 each) and get_debug (the lazily parsed debug_info_item)
  axml  AXMLPrinter(buf).get_xml()
  arsc  ARSCParser(buf) + every listing accessor + get_res_configs / get_resource_xml_name for every listed id and
        get_resolved_res_configs for the ids whose reference graph (computed by the harness from the parsed table)
        is acyclic with a bounded expansion (cycles are property C29; the resolver expands a reference DAG as a tree)
  apk   APK(buf, raw=True) + manifest queries + parse_v2_v3_signature / v2 / v3 / v3.1 signing blocks /
        get_certificates / get_signature_names

Generator: structured mutation (Hypothesis) of small valid files - a fixed set built at shard start from the
independent writers (vf.gen.dexgen/dexstrat, axmlgen, arscgen, zipgen, sigblock) with a seeded draw, plus shipped
files <= 200 KB from tests/data (and the manifest / resources.arsc / classes.dex members of the shipped APKs).
Mutations: truncation at structural boundaries (found by small harness-side scanners: DEX header/map/id sections,
ResChunk trees, zip local/central/EOCD records, APK Signing Block pairs) and at random points; single-field edits
to huge / negative / self-referential counts, sizes and offsets; chunk size 0 or smaller than the header; huge
uleb128 values; stripping the final NUL of the last string_data_item when string data is last in the file;
overwriting / deleting the NUL of any string_data_item k (optionally every later NUL too, so that the run continues
through the following data to EOF); replacing every NUL from a boundary to EOF; appending a non-NUL tail whose length
(or, after dropping the file's trailing NUL, the length of the resulting unterminated run) is at / around the string
readers' chunk and length-prefix boundaries (126..130, 254..258, 383..385, 511..513, 1000, 1023..1025, 4096/7) with
DEX file_size / zip comment length following for half; byte flips, splices, insertions, deletions. Seeds include DEX
files whose string pools hold strings of those MUTF-8 lengths (1-/2-/3-byte code units, sorting first / last) with
string data last in the file, AXML / ARSC files with UTF-8 / UTF-16 strings at the 0x80 / 0x100 / 0x7fff / 0x8000
length-prefix boundaries and APKs with 128 .. 65535 byte archive comments. A spy on the DEX string reader labels the
cases in which it ran into EOF by the length of the unterminated run ('dex:unterminated-tail>=128', '=k*128', ...).
DEX: Adler-32 + SHA-1 re-fixed for ~85 % of the cases; AXML/ARSC: outer chunk size made consistent for ~half. A
systematic part enumerates every boundary / every field x every special value / every string terminator for the
smallest seeds, and the unterminated last string at every boundary length for every DEX seed that ends with its string
data. Thorough tier: atheris coverage-guided campaigns (when atheris is importable).

Tail-chunk combinations ('axml:tail-chunk-combo', 'arsc:tail-chunk-combo', also wrapped into an APK): every chunk
walker advances by seeking to header.start + header.size, so the last chunk of the input is exercised under the
product of its declared size (0..8, around the header size), its declared header size (kept, 0, 8, 12, 16, 0x18, 0x1c,
0xffff), its type (every RES_*_TYPE of ResourceTypes.h and unknown values inside / outside the XML node range) and the
number of bytes left from its start to the end of the buffer (0 .. header size + 16; cut or padded), with the sizes
of the enclosing chunks following the new length (all / root only) or left as they are. Any chunk k becomes the last
one by cutting the input after it, and one more chunk is appended behind the document. Systematic on generated
minimal documents (string pool only; + element; + resource map; + namespace + text; table + pool; + package +
typeSpec + type) and the smallest seeds, drawn (Hypothesis, optionally followed by one more mutation) on every seed.
These tiny inputs go to the sandbox in batches (one request, one budget / timer per input). A spy records the
offsets at which chunk headers were read: 'tail:walker-read-the-tail-header' counts the cases in which the mutated
header itself was consumed. DEX analogue ('dex:tail-map-combo'): map_list count x bytes left after the start of the
list x size / offset of the last complete map_item, file_size following or not, checksums re-fixed.

Wide seeds ('wide' shards, labels '<fmt>:wide-seed:<shape>'): the seeds above are small, so a count that a parser loops
over never gets large. One structure at a time is made wide - 300 / 1 200 / 2 500 / 5 000 / 20 000 items, everything else
minimal, the items really present in the bytes so that the budget (which follows the length) grows with them only
linearly: AXML attributes of ONE element (name index valid and distinct / all equal / 0xFFFFFFFF / outside the pool,
distinct and equal / an empty pool string / resolved through the resource map to unknown and to known ids; string
values; namespace index outside the pool), children, text chunks, root-level siblings, namespace mappings in scope
(distinct / one pair repeated / never closed / closed only), nesting depth (with and without a declaration per level),
resource-map entries, pool strings, skipped chunks; ARSC entries of one type (32-bit / 16-bit / sparse offsets, string
values, one shared key, complex entries, holes), items of one bag, configurations of one entry (densities, locales),
255 types, global-pool and key-pool strings, a reference chain, repeated package chunks; DEX strings / types / protos /
field ids / method ids / classes / fields and methods of one class / instructions / tries and handlers / interfaces /
annotations / annotation elements / parameters / array elements / extra map items; APK members, META-INF signature files,
classesN.dex members, signing-block pairs (distinct / equal ids), v2 / v3 signers, digests, signatures, attributes and
certificates of one signer, manifests with n permissions / activities, and the wide AXML / ARSC / DEX files as STORED
members. Built with the independent writers (axmlgen / arscgen / dexgen / zipgen / sigblock) where they can express the
shape and byte by byte where they cannot. Each is run unmodified (smallest counts first; a shape whose time-out was
confirmed is not run at larger counts) and under wide mutations (one field of every item / a run of ~1138 items /
every second item rewritten with an absent, zero, out-of-pool distinct / equal, identity, reversed or huge index; the
declared count off by one, doubled, 1137 / 1138, at the type's maximum with the bytes unchanged; a cut inside the array
at items 1137..1139, the middle, the end; one general mutation on top). Spies in the sandbox child measure the counts
the parsers' own loops saw: labels 'axml:wide:attrs>=1138', 'axml:wide:namespaces>=1000', 'arsc:wide:entries>=5000',
'dex:wide:map-items>=1000', 'apk:wide:signers>=1000', ... and 'wide:main-loop-saw-the-count'; 'budget-used>=10%' /
'>=33%' label finished cases by the share of their budget they used (the margin of the oracle, measured).
Kept out for the margin of the oracle (see the manifest note): a whole-array fill of the *size* field of n DEX map items
(MapItem.parse then reads the same section n times, n x m items for 12 n + m bytes: cases come within a factor 2-3 of
their budget before the memory cap ends them with an allowed MemoryError), and more than 1 200 (thorough: 2 500) nested
elements that each declare a namespace (AXMLPrinter hands the whole mapping in scope to every lxml element; measured
~n^3: 5 s at 1 200 levels, 9 min at 5 000 - 41 % of the budget of that 678 KB input).

Oracle: each call runs in a sandbox child process (fork) with a CPU-time budget of max(5 s, 2 ms x len(input))
enforced with setitimer(ITIMER_PROF) (handler records the Python stack, answers and exits) and RLIMIT_CPU as a
kernel-level backstop (a loop inside C code cannot run the Python handler), and a 2 GB address-space cap. CPU
time, not wall-clock: machine load does not matter. The child is forked from a warmed-up parent (every target has
parsed valid files once, gc.freeze() keeps the child from copying the parent's heap) and warms up again after the
fork, so that lazy imports and copy-on-write faults are never charged to a case. A time-out is re-run alone in a
fresh child with a 3x budget before it counts. Failures are bucketed by (target, innermost androguard frame at the
time-out, small read helpers skipped; plus the library frame when the innermost frame is third-party code).
Wall-clock caps only bound how many cases a shard explores; a stalled child (no CPU, no answer) is counted as
inconclusive, never as a violation.

Memory: the statement bounds *time*. MemoryError under the cap is an allowed error outcome; a child that dies
otherwise (signal) is counted in 'resource:memory' / 'crash:*' counters and is not a violation. Allocation driven
by a declared count only becomes a violation when it also exceeds the CPU budget.
"""
import hashlib
import io
import os
import pickle
import resource
import select
import signal
import struct
import sys
import time
import traceback
import zipfile
import zlib

from hypothesis import strategies as st
from vf.core.runner import hyp_collect, hyp_settings, HarnessError, VERIF

PROPERTY = 'C35'
LEVEL = 'exploration'
RULE = ('case = (target in dex/axml/arsc/apk, bytes) where bytes = a small valid file (generated by the independent '
        'writers or shipped, <= 200 KB) after 1..3 structured mutations (truncation at structural boundaries / random '
        'points, huge or self-referential counts/sizes/offsets, chunk size 0 or < header, huge uleb128, unterminated '
        'last string, NUL of string k overwritten, no NUL from a boundary to EOF, non-NUL tail of chunk-boundary '
        'length at EOF, flips/splices/insert/delete), DEX checksums re-fixed for ~85 %, outer chunk size re-fixed for '
        '~50 % of AXML/ARSC; plus a systematic enumeration of every boundary / field x special value on the smallest '
        'seeds; plus tail-chunk combinations for AXML / ARSC (chunk k made the last chunk: size 0..8 / around header '
        'size x header size x chunk type x bytes left to the end of the buffer 0..header+16, enclosing sizes consistent '
        'or not; systematic on generated minimal documents, drawn on all seeds; also inside an APK) and the map_list '
        'analogue for DEX; plus wide seeds (one structure with 300 / 1 200 / 2 500 / 5 000 / 20 000 items: attributes of one '
        'element with valid / equal / absent / out-of-pool name indices, children, namespaces, nesting, entries / configs / '
        'bag items / packages of a resource table, DEX id sections / classes / members / map items, zip members, signing-'
        'block pairs / signers / digests / certificates), unmodified and under wide mutations (a field of every item, the '
        'declared count, cuts inside the array); thorough adds atheris corpora. non-trivial = the parser got past its header checks (harness-side spy: '
        'DEX MapList reached, AXML string pool reached, ARSC second chunk header reached, APK zip directory read); '
        'distinct = (target, bytes)')
ASSUMPTIONS = [
    'oracle = CPU time of the call <= max(5 s, 2 ms x len) measured in a forked child (ITIMER_PROF + RLIMIT_CPU), '
    'confirmed by a second run alone with a 3x budget',
    'memory blow-up is out of scope unless it shows as a time-out (MemoryError under the 2 GB cap is an allowed error)',
    'reference resolution (get_resolved_res_configs / get_app_name) is only exercised on ids whose reference graph is '
    'acyclic and whose tree expansion is <= 5000 nodes, 20000 nodes over all ids of one table (cycles belong to C29)',
    'PBT finds hangs, it cannot establish termination',
    'seed files come from vf/gen writers (trusted to be well-formed) and tests/data',
]
EXHAUSTIVE = False

MEM_CAP = 2 << 30
MIN_BUDGET = 5.0
PER_BYTE = 0.002
MAX_SEED_BYTES = 200 * 1024
CONFIRM_FACTOR = 3.0
MAX_CONFIRMS_PER_BUCKET = 2        # per shard: further time-outs with the same first-pass frame are only counted
SHIPPED_DATA = '/repo/tests/data'   # seed corpus is always read from the unmodified checkout
EMPTIED = '/root/.vp/EMPTIED_FILES.txt'

# tiny read helpers that are never the *cause* of a loop: skipped when naming the bucket frame
LEAF_HELPERS = {'get_byte', 'get_sbyte', 'readuleb128', 'readuleb128p1', 'readsleb128', 'read_at', 'unpack',
                'read_uint32_le', '__getitem__', 'tell', 'seek', 'read', 'getString', '_decode8', '_decode16',
                '_decode_length', '_decode_bytes', 'get_type', 'size', 'end', 'type', 'header_size'}


def budget_for(n):
    return max(MIN_BUDGET, PER_BYTE * n)


# =====================================================================================================
# targets (run inside the sandbox child)
# =====================================================================================================
FLAGS = {}


def _try(fn, *a):
    try:
        return fn(*a)
    except MemoryError:
        raise
    except Exception:
        FLAGS['sub_exc'] = FLAGS.get('sub_exc', 0) + 1
        return None


def t_dex(data):
    from androguard.core import dex
    d = dex.DEX(data)
    FLAGS['constructed'] = 1
    cls = _try(d.get_classes) or []
    FLAGS['dex.classes'] = len(cls)
    for c in cls[:64]:
        _try(c.get_name)
        _try(c.get_superclassname)
        _try(c.get_interfaces)
    for mi in (_try(d.get_methods) or [])[:64]:
        _try(mi.get_name)
        _try(mi.get_class_name)
        _try(mi.get_descriptor)
    ms = _try(d.get_encoded_methods) or []
    FLAGS['dex.emethods'] = len(ms)
    for m in ms[:48]:
        _try(m.get_name)
        _try(m.get_descriptor)
        code = _try(m.get_code)
        if code is not None:
            def sweep(m=m):
                n = 0
                for _ in m.get_instructions():
                    n += 1
                    if n >= 4096:
                        break
            _try(sweep)
            _try(m.get_debug)
            # EncodedMethod.get_debug() cannot work on this tree (ClassManager.get_debug_off seeks on the DEX object,
            # AttributeError), so the lazily parsed debug_info_item is reached the way get_debug_off intends to
            off = _try(code.get_debug_info_off)
            if off:
                def dbg(off=off):
                    d.raw.seek(off)
                    dex.DebugInfoItem(d.raw, d.get_class_manager())
                    FLAGS['dbg'] = FLAGS.get('dbg', 0) + 1
                _try(dbg)
    for f in ((_try(d.get_fields) or [])[:64] + (_try(d.get_encoded_fields) or [])[:64]):
        _try(f.get_name)
        _try(f.get_descriptor)
    FLAGS['dex.strings'] = len(_try(d.get_strings) or ())


def t_axml(data):
    from androguard.core import axml
    p = axml.AXMLPrinter(data)
    FLAGS['constructed'] = 1
    p.get_xml()
    p.is_valid()
    p.is_packed()


RESOLVE_NODE_CAP = 5000
RESOLVE_TOTAL_CAP = 20000


def _resolve_plan(a):
    """Which resource ids may be passed to get_resolved_res_configs: those whose reference graph (as androguard
    parsed it) is acyclic and whose tree expansion is small. Returns (all ids, set of allowed ids)."""
    from androguard.core import axml
    a._analyse()
    rv = a.resource_values
    ids = list(rv.keys())
    edges, weight = {}, {}
    for rid in ids:
        out = []
        cfgs = rv.get(rid) or {}
        weight[rid] = len(cfgs)
        for cfg, ate in list(cfgs.items()):
            if ate.is_complex():
                items = [it for _, it in ate.item.items]
            elif ate.is_compact():
                items = []
            else:
                items = [ate.key]
            weight[rid] += len(items)
            for it in items:
                if isinstance(it, axml.ARSCResStringPoolRef) and it.is_reference():
                    r = it.get_data()
                    if r and r != ate.mResId:
                        out.append(r)
        edges[rid] = out
    cost = {}
    BAD = float('inf')
    state = {}
    for root in ids:
        if root in cost:
            continue
        stack = [(root, iter(edges.get(root, ())))]
        state[root] = 1
        acc = {root: weight.get(root, 0)}
        while stack:
            node, itr = stack[-1]
            advanced = False
            for nxt in itr:
                if nxt not in edges:
                    continue                    # dangling reference: resolver finds nothing
                if nxt in cost:
                    acc[node] = acc[node] + cost[nxt]
                    continue
                if state.get(nxt) == 1:
                    acc[node] = BAD             # back edge: cycle
                    continue
                state[nxt] = 1
                acc[nxt] = weight.get(nxt, 0)
                stack.append((nxt, iter(edges.get(nxt, ()))))
                advanced = True
                break
            if not advanced:
                stack.pop()
                state[node] = 2
                cost[node] = acc[node]
                if stack:
                    acc[stack[-1][0]] = acc[stack[-1][0]] + cost[node]
    # a node on a cycle poisons everything that reaches it; nodes *inside* a cycle got BAD through the back edge,
    # but a cycle member finished before the back edge was seen may have a finite cost: poison iteratively
    changed = True
    while changed:
        changed = False
        for rid in ids:
            if cost.get(rid) != BAD and any(cost.get(r) == BAD for r in edges[rid] if r in edges):
                cost[rid] = BAD
                changed = True
    allowed = {rid for rid in ids if cost.get(rid, BAD) <= RESOLVE_NODE_CAP}
    return ids, allowed, cost


def _arsc_queries(a):
    pk = _try(a.get_packages_names) or []
    for p in pk[:6]:
        locs = _try(a.get_locales, p) or []
        for loc in list(locs)[:6]:
            _try(a.get_types, p, loc)
        for fn in (a.get_public_resources, a.get_string_resources, a.get_id_resources, a.get_bool_resources,
                   a.get_integer_resources, a.get_color_resources, a.get_dimen_resources):
            _try(fn, p)
        _try(a.get_type_configs, p)
    _try(a.get_strings_resources)
    _try(a.get_resolved_strings)
    try:
        ids, allowed, cost = _resolve_plan(a)
    except MemoryError:
        raise
    except Exception:
        FLAGS['plan_failed'] = 1
        return
    FLAGS['ids'] = len(ids)
    FLAGS['resolve_skipped'] = len(ids) - len(allowed)
    total = 0
    for rid in ids[:1500]:
        if not rid:
            continue
        _try(a.get_res_configs, rid)
        _try(a.get_resource_xml_name, rid)
        if rid in allowed:
            # the sum over the queried ids is bounded too: a chain of n references costs n + (n-1) + ... - the queries
            # of the harness, not the parser, would be quadratic in the size of the input
            total += cost[rid]
            if total <= RESOLVE_TOTAL_CAP:
                _try(a.get_resolved_res_configs, rid)
            else:
                FLAGS['resolve_total_capped'] = FLAGS.get('resolve_total_capped', 0) + 1
    return allowed


def t_arsc(data):
    from androguard.core import axml
    a = axml.ARSCParser(data)
    FLAGS['constructed'] = 1
    _arsc_queries(a)


def t_apk(data):
    from androguard.core import apk
    a = apk.APK(data, raw=True)
    FLAGS['constructed'] = 1
    for fn in (a.is_valid_APK, a.get_package, a.get_androidversion_code, a.get_androidversion_name, a.get_files,
               a.get_permissions, a.get_activities, a.get_services, a.get_receivers, a.get_providers,
               a.get_main_activity, a.get_main_activities, a.get_min_sdk_version, a.get_target_sdk_version,
               a.get_effective_target_sdk_version, a.get_max_sdk_version, a.get_libraries, a.get_features,
               a.get_declared_permissions, a.get_uses_implied_permission_list, a.is_multidex, a.get_dex_names,
               a.get_android_manifest_xml):
        _try(fn)
    FLAGS['apk.files'] = len(_try(a.get_files) or ())
    def alldex():
        for i, _ in enumerate(a.get_all_dex()):
            if i > 8:
                break
    _try(alldex)
    _try(a.parse_v2_v3_signature)
    for fn in (a.is_signed, a.is_signed_v1, a.is_signed_v2, a.is_signed_v3, a.is_signed_v31, a.parse_v2_signing_block,
               a.parse_v3_signing_block, a.get_signature_names, a.get_certificates_der_v2, a.get_certificates_der_v3,
               a.get_public_keys_der_v2, a.get_public_keys_der_v3, a.get_certificates, a.get_signatures):
        _try(fn)
    _try(a.parse_v3_signing_block, True)
    # resources: reference resolution only on the acyclic / bounded part (see _resolve_plan)
    res = _try(a.get_android_resources)
    if res is not None:
        allowed = _try(_arsc_queries, res)
        if allowed is not None and FLAGS.get('resolve_skipped', 0) == 0:
            _try(a.get_app_name)
            _try(a.get_app_icon)
        else:
            FLAGS['app_name_skipped'] = 1


TARGETS = {'dex': t_dex, 'axml': t_axml, 'arsc': t_arsc, 'apk': t_apk}


def _install_spies():
    """harness-side observation of 'got past the header checks' (inside the sandbox child only)"""
    from androguard.core import dex, axml, apk
    if getattr(dex.MapList, '_c35_spy', False):
        return

    def wrap(cls, name, flag, counting=False):
        orig = getattr(cls, name)

        def spy(self, *a, **k):
            FLAGS[flag] = FLAGS.get(flag, 0) + 1
            return orig(self, *a, **k)
        spy.__name__ = orig.__name__
        spy.__qualname__ = getattr(orig, '__qualname__', orig.__name__)
        setattr(cls, name, spy)
    wrap(dex.MapList, '__init__', 'dex.maplist')
    wrap(axml.StringBlock, '__init__', 'pool')
    orig_hdr = axml.ARSCHeader.__init__

    def hdr_spy(self, buff, *a, **k):
        # measurement only: how many chunk headers were read, and (bounded) at which offsets
        FLAGS['hdr'] = FLAGS.get('hdr', 0) + 1
        offs = FLAGS.setdefault('hdr_offs', set())
        if len(offs) < 512:
            try:
                offs.add(buff.tell())
            except Exception:
                pass
        return orig_hdr(self, buff, *a, **k)
    hdr_spy.__name__ = orig_hdr.__name__
    hdr_spy.__qualname__ = getattr(orig_hdr, '__qualname__', orig_hdr.__name__)
    axml.ARSCHeader.__init__ = hdr_spy
    wrap(apk.APK, '_apk_analysis', 'apk.zipread')
    # measurement only: how long was the run of bytes the DEX string reader consumed when it hit EOF without a NUL
    orig_rnts = dex.read_null_terminated_string

    def read_null_terminated_string(f):
        pos = f.tell()
        try:
            return orig_rnts(f)
        except ValueError:
            cur = f.tell()
            FLAGS['dex.eofstr'] = max(FLAGS.get('dex.eofstr', 0), f.seek(0, 2) - pos)
            FLAGS['dex.eofstr_n'] = FLAGS.get('dex.eofstr_n', 0) + 1
            f.seek(cur)
            raise
    dex.read_null_terminated_string = read_null_terminated_string
    # measurement only ('wide' labels): how large were the per-structure counts the parsers' main loops really saw -
    # attributes of one element / open elements / namespace mappings in scope / pull events (AXML), entries, type
    # chunks and configurations (ARSC), map items (DEX), signing-block pairs and signers (APK)
    orig_next = axml.AXMLParser.__next__

    def __next__(self):
        ev = orig_next(self)
        FLAGS['x.events'] = FLAGS.get('x.events', 0) + 1
        if ev == axml.START_TAG:
            d = FLAGS['x.depth'] = FLAGS.get('x.depth', 0) + 1
            if d > FLAGS.get('x.maxdepth', 0):
                FLAGS['x.maxdepth'] = d
            na = len(self.m_attributes) // 5
            if na > FLAGS.get('x.maxattrs', 0):
                FLAGS['x.maxattrs'] = na
            FLAGS['x.tags'] = FLAGS.get('x.tags', 0) + 1
        elif ev == axml.END_TAG:
            FLAGS['x.depth'] = FLAGS.get('x.depth', 0) - 1
        nn = len(self.namespaces)
        if nn > FLAGS.get('x.maxns', 0):
            FLAGS['x.maxns'] = nn
        return ev
    axml.AXMLParser.__next__ = __next__
    def wrap_max(cls, name, flag, size):
        orig = getattr(cls, name)

        def spy(self, *a, **k):
            try:
                return orig(self, *a, **k)
            finally:
                try:
                    v = size(self)
                    if v > FLAGS.get(flag, 0):
                        FLAGS[flag] = v
                except Exception:
                    pass
        spy.__name__ = orig.__name__
        spy.__qualname__ = getattr(orig, '__qualname__', orig.__name__)
        setattr(cls, name, spy)
    wrap_max(axml.StringBlock, '__init__', 'pool.strings', lambda sb: len(sb.m_stringOffsets))
    wrap_max(axml.ARSCComplex, '__init__', 'r.bagitems', lambda c: len(c.items))
    wrap(axml.ARSCResTableEntry, '__init__', 'r.entries')
    wrap(axml.ARSCResType, '__init__', 'r.types')
    wrap(axml.ARSCResTypeSpec, '__init__', 'r.specs')
    wrap(axml.ARSCResTablePackage, '__init__', 'r.packages')
    wrap(dex.MapItem, 'parse', 'dex.mapitems')
    wrap(apk.APKV2SignatureBlock, '__init__', 'apk.pairs')
    wrap(apk.APKV2Signer, '__init__', 'apk.signers')       # APKV3Signer.__init__ calls it too
    orig_recs = apk.APK.parse_signatures_or_digests

    def parse_signatures_or_digests(self, *a, **k):
        out = orig_recs(self, *a, **k)
        try:
            FLAGS['apk.records'] = max(FLAGS.get('apk.records', 0), len(out))
        except TypeError:
            pass
        return out
    apk.APK.parse_signatures_or_digests = parse_signatures_or_digests
    dex.MapList._c35_spy = True


def tail_labels(flags):
    """class of the unterminated string the DEX string reader ran into (length of the run from the first byte of the
    string data to EOF, as observed by the spy; under a reader that hangs there is no observation, only the time-out)"""
    if not flags.get('dex.eofstr_n'):
        return []
    d = flags.get('dex.eofstr', 0)
    lab = ['dex:unterminated-tail', 'dex:unterminated-tail>=128' if d >= 128 else 'dex:unterminated-tail<128']
    if d >= 126:
        lab.append('dex:unterminated-tail:%s' % ('126..130' if d <= 130 else '131..253' if d < 254 else
                                                  '254..258' if d <= 258 else '259..999' if d < 1000 else '>=1000'))
    if d and d % 128 == 0:
        lab.append('dex:unterminated-tail=k*128')
    return lab


def nontrivial(target, flags):
    if target == 'dex':
        return bool(flags.get('dex.maplist'))
    if target == 'axml':
        return bool(flags.get('pool'))
    if target == 'arsc':
        return flags.get('hdr', 0) >= 2
    return bool(flags.get('apk.zipread'))


# =====================================================================================================
# sandbox: a forked child that answers (target, data, budget) requests
# =====================================================================================================
def _send(fd, obj):
    b = pickle.dumps(obj, protocol=4)
    b = struct.pack('<I', len(b)) + b
    mv = memoryview(b)
    while mv:
        n = os.write(fd, mv)
        mv = mv[n:]


def _read_exact(fd, n):
    chunks = []
    while n:
        b = os.read(fd, min(n, 1 << 20))
        if not b:
            return None
        chunks.append(b)
        n -= len(b)
    return b''.join(chunks)


def _recv(fd):
    h = _read_exact(fd, 4)
    if h is None:
        return None
    b = _read_exact(fd, struct.unpack('<I', h)[0])
    if b is None:
        return None
    return pickle.loads(b)


def _frames(frame):
    """[(where, qualified function, lineno)] outermost -> innermost: the frames of the target call only (the child is
    forked in the middle of the harness, so everything up to _child_main is the parent's stack), stdlib skipped"""
    raw = []
    f = frame
    while f is not None:
        code = f.f_code
        if code.co_name == '_child_main' and code.co_filename.endswith('c35.py'):
            break
        raw.append((code.co_filename, getattr(code, 'co_qualname', code.co_name), f.f_lineno))
        f = f.f_back
    raw.reverse()
    out = []
    for fn, name, line in raw:
        if '/androguard/' in fn:
            where = 'androguard/' + fn.split('/androguard/', 1)[1]
        elif '/site-packages/' in fn:
            where = 'site-packages/' + fn.split('/site-packages/', 1)[1]
        else:
            continue
        out.append((where, name, line))
    return out[-14:]


def _child_main(rfd, wfd):
    try:
        signal.signal(signal.SIGINT, signal.SIG_IGN)
        signal.signal(signal.SIGXCPU, signal.SIG_DFL)
        dn = os.open(os.devnull, os.O_RDWR)
        os.dup2(dn, 1)
        os.dup2(dn, 2)
        resource.setrlimit(resource.RLIMIT_CORE, (0, 0))
        _, hard_as = resource.getrlimit(resource.RLIMIT_AS)
        cap = MEM_CAP if hard_as == resource.RLIM_INFINITY else min(MEM_CAP, hard_as)
        resource.setrlimit(resource.RLIMIT_AS, (cap, hard_as))
        _, hard_cpu = resource.getrlimit(resource.RLIMIT_CPU)
        _warmup()                 # touch the code paths once (copy-on-write faults) before anything is timed
        _install_spies()
        st_ = {'running': False, 't0': 0.0, 'done': None}

        def on_prof(signum, frame):
            if not st_['running']:
                return
            st_['running'] = False
            try:
                stack = _frames(frame)
            except BaseException:
                stack = []
            try:
                _send(wfd, {'outcome': 'timeout', 'stack': stack, 'flags': dict(FLAGS),
                            'cpu': time.process_time() - st_['t0'], 'done': st_.get('done')})
            finally:
                os._exit(0)
        signal.signal(signal.SIGPROF, on_prof)
        while True:
            req = _recv(rfd)
            if req is None:
                os._exit(0)
            target, data, budget = req
            if target == '__batch__':
                # several small inputs in one request (one round trip); every input has its own budget / timer
                tgt, datas = data
                results = st_['done'] = []
                for d, bud in zip(datas, budget):
                    FLAGS.clear()
                    t0 = time.process_time()
                    soft = int(t0 + bud * 1.5 + 3)
                    if hard_cpu != resource.RLIM_INFINITY:
                        soft = min(soft, hard_cpu)
                    resource.setrlimit(resource.RLIMIT_CPU, (soft, hard_cpu))
                    st_['t0'] = t0
                    st_['running'] = True
                    signal.setitimer(signal.ITIMER_PROF, bud)
                    try:
                        TARGETS[tgt](d)
                        out = 'ok'
                    except BaseException as e:
                        out = 'exc:' + type(e).__name__
                    st_['running'] = False
                    signal.setitimer(signal.ITIMER_PROF, 0)
                    cpu = time.process_time() - t0
                    if out == 'exc:MemoryError':
                        import gc
                        gc.collect()
                    results.append({'outcome': out, 'flags': dict(FLAGS), 'cpu': cpu})
                st_['done'] = None
                _send(wfd, {'outcome': 'batch', 'results': results})
                continue
            FLAGS.clear()
            t0 = time.process_time()
            soft = int(t0 + budget * 1.5 + 3)
            if hard_cpu != resource.RLIM_INFINITY:
                soft = min(soft, hard_cpu)
            resource.setrlimit(resource.RLIMIT_CPU, (soft, hard_cpu))
            st_['t0'] = t0
            st_['running'] = True
            signal.setitimer(signal.ITIMER_PROF, budget)
            try:
                TARGETS[target](data)
                out = 'ok'
            except BaseException as e:
                out = 'exc:' + type(e).__name__
            st_['running'] = False
            signal.setitimer(signal.ITIMER_PROF, 0)
            cpu = time.process_time() - t0
            if out == 'exc:MemoryError':
                import gc
                gc.collect()
            _send(wfd, {'outcome': out, 'flags': dict(FLAGS), 'cpu': cpu})
    except BaseException:
        try:
            _send(wfd, {'outcome': 'harness', 'error': traceback.format_exc()})
        except BaseException:
            pass
        os._exit(3)


_WARM = []


def _warm_files():
    if not _WARM:
        from vf.gen import zipgen, arscgen, dexgen
        dexb = dexgen.DexFile([dexgen.Class('Lw/W;', vmethods=[
            dexgen.Method('m', 'V', (), 1, dexgen.Code(1, 1, 0, bytes([0x0e, 0x00])))])]).build()
        arsc = arscgen.build(arscgen.simple_table())
        apks = [zipgen.build_apk([('classes.dex', dexb, zipgen.DEFLATED), ('resources.arsc', arsc, zipgen.STORED)],
                                 manifest=_manifest_with_refs())]
        for rel in ('APK/apksig/golden-aligned-v1v2v3-out.apk', 'APK/apksig/v1-only-with-rsa-1024.apk',
                    'APK/apksig/v31-ec-p256-2-tgt-33-1-tgt-28-targetSdk-30.apk'):
            try:
                with open(os.path.join(SHIPPED_DATA, rel), 'rb') as f:
                    apks.append(f.read())
            except OSError:
                pass
        _WARM.extend([('dex', dexb), ('axml', zipgen.MINIMAL_MANIFEST), ('arsc', arsc)] + [('apk', a) for a in apks])
    return _WARM


def _warmup():
    """run every target once on valid files (parent: once per process; child: after every fork, outside any budget)"""
    for target, data in _warm_files():
        try:
            TARGETS[target](data)
        except Exception:
            pass
    FLAGS.clear()


_PARENT_WARM = set()


class Sandbox:
    def __init__(self, max_requests=1500):
        self.pid = None
        self.n = 0
        self.max_requests = max_requests
        self.spawns = 0
        self._owner = os.getpid()

    def _spawn(self):
        self.close()
        if os.getpid() not in _PARENT_WARM:
            # lazy imports (cryptography, asn1crypto, lxml ...) happen once, in the parent
            _warmup()
            _PARENT_WARM.add(os.getpid())
        c2p_r, c2p_w = os.pipe()
        p2c_r, p2c_w = os.pipe()
        sys.stdout.flush()
        sys.stderr.flush()
        import gc
        gc.freeze()              # the child never traverses (and so never copies) the parent's heap
        try:
            pid = os.fork()
        finally:
            if os.getpid() == self._owner:
                gc.unfreeze()
        if pid == 0:
            try:
                os.close(c2p_r)
                os.close(p2c_w)
                _child_main(p2c_r, c2p_w)
            finally:
                os._exit(4)
        os.close(c2p_w)
        os.close(p2c_r)
        self.pid, self.rfd, self.wfd, self.n = pid, c2p_r, p2c_w, 0
        self.spawns += 1

    def close(self):
        if self.pid is None:
            return
        for fd in (self.rfd, self.wfd):
            try:
                os.close(fd)
            except OSError:
                pass
        try:
            os.kill(self.pid, signal.SIGKILL)
        except OSError:
            pass
        try:
            os.waitpid(self.pid, 0)
        except OSError:
            pass
        self.pid = None

    def run(self, target, data, budget):
        """-> dict(outcome=ok|exc:<T>|timeout|crash:<sig>|stall, flags, cpu, stack)"""
        if self.pid is None or self.n >= self.max_requests:
            self._spawn()
        self.n += 1
        try:
            _send(self.wfd, (target, bytes(data), float(budget)))
        except OSError:
            self._spawn()
            self.n += 1
            _send(self.wfd, (target, bytes(data), float(budget)))
        wall = max(180.0, budget * 40)
        r, _, _ = select.select([self.rfd], [], [], wall)
        if not r:
            self.close()
            return {'outcome': 'stall', 'flags': {}, 'cpu': None, 'stack': []}
        res = _recv(self.rfd)
        if res is None:
            # the child died without answering
            pid = self.pid
            try:
                os.close(self.rfd)
                os.close(self.wfd)
            except OSError:
                pass
            self.pid = None
            try:
                _, status = os.waitpid(pid, 0)
            except OSError:
                status = 0
            if os.WIFSIGNALED(status):
                sig = os.WTERMSIG(status)
                if sig == signal.SIGXCPU:
                    return {'outcome': 'timeout', 'flags': {}, 'cpu': None,
                            'stack': [('native-or-uninterruptible', 'killed by RLIMIT_CPU', 0)]}
                return {'outcome': 'crash:%s' % signal.Signals(sig).name, 'flags': {}, 'cpu': None, 'stack': []}
            return {'outcome': 'crash:exit%d' % os.WEXITSTATUS(status), 'flags': {}, 'cpu': None, 'stack': []}
        if res['outcome'] == 'harness':
            self.close()
            raise HarnessError('sandbox child failed:\n' + res.get('error', ''))
        if res['outcome'] == 'timeout':
            self.close()
        res.setdefault('stack', [])
        return res


    def run_batch(self, target, datas, budgets):
        """Several (small) inputs in one request -> one result dict per input, as from run(). A time-out ends the child:
        the inputs after it go to a new child. A child that dies or stalls without an answer cannot say at which input:
        the whole batch is then run again one input per request."""
        datas = [bytes(d) for d in datas]
        if not datas:
            return []
        if self.pid is None or self.n >= self.max_requests:
            self._spawn()
        self.n += len(datas)
        req = ('__batch__', (target, datas), [float(b) for b in budgets])
        try:
            _send(self.wfd, req)
        except OSError:
            self._spawn()
            self.n += len(datas)
            _send(self.wfd, req)
        wall = max(180.0, max(budgets) * 40) + 3.0 * sum(budgets)
        r, _, _ = select.select([self.rfd], [], [], wall)
        res = _recv(self.rfd) if r else None
        if res is None:
            self.close()
            return [self.run(target, d, b) for d, b in zip(datas, budgets)]
        if res['outcome'] == 'harness':
            self.close()
            raise HarnessError('sandbox child failed:\n' + res.get('error', ''))
        if res['outcome'] == 'batch':
            return res['results']
        if res['outcome'] != 'timeout' or res.get('done') is None:
            raise HarnessError('unexpected answer to a batch request: %r' % (res.get('outcome'),))
        self.close()
        done = res.pop('done')
        res.setdefault('stack', [])
        i = len(done)
        return done + [res] + self.run_batch(target, datas[i + 1:], budgets[i + 1:])


_SB = {}


def sandbox(kind='main'):
    sb = _SB.get((os.getpid(), kind))
    if sb is None:
        # 'batch': thousands of tiny inputs per second - the warm-up after a fork (~2 s) must not dominate
        sb = _SB[(os.getpid(), kind)] = Sandbox(max_requests=60000) if kind == 'batch' else Sandbox()
    return sb


def bucket_of(target, stack):
    ag = [f for f in stack if f[0].startswith('androguard/')]
    pick = None
    for f in reversed(ag):
        if f[1].split('.')[-1] not in LEAF_HELPERS:
            pick = f
            break
    if pick is None and ag:
        pick = ag[-1]
    if pick is None:
        name = stack[-1][0] + ':' + stack[-1][1] if stack else 'no-frame'
    else:
        name = pick[0].replace('androguard/core/', '').replace('/__init__.py', '') + ':' + pick[1]
        if stack and stack[-1][0].startswith('site-packages/') and not stack[-1][0].startswith('site-packages/androguard'):
            name += '@' + stack[-1][0].split('/')[1] + ':' + stack[-1][1]
    return 'timeout:%s:%s' % (target, name)


def _note_slow(ctx, target, data, origin, res):
    """diagnostic only: keep cases that used more than half of the minimum budget (replays/ is scratch output)"""
    n = ctx.__dict__.setdefault('_c35_slow_notes', 0)
    if n >= 5 or len(data) > 65536:
        return
    ctx.__dict__['_c35_slow_notes'] = n + 1
    try:
        import json
        d = os.path.join(VERIF, 'replays', PROPERTY)
        os.makedirs(d, exist_ok=True)
        name = 'slow-' + hashlib.sha1(data).hexdigest()[:16] + '.json'
        with open(os.path.join(d, name), 'w') as f:
            json.dump({'property': PROPERTY, 'bucket': 'slow(not a violation)', 'message': 'cpu %.2fs outcome %s flags %r' % (
                res.get('cpu') or -1, res['outcome'], res.get('flags')),
                'case': {'target': target, 'data': {'hex': data.hex()}, 'origin': origin}}, f)
    except OSError:
        pass


def evaluate_many(ctx, target, items):
    """items = [(data, labels, origin)]: the first pass of all of them in one sandbox request (small inputs: the round
    trip costs several times the parse), then each is recorded / confirmed exactly as by evaluate(). -> result dicts"""
    datas = [bytes(d) for d, _, _ in items]
    ress = sandbox('batch').run_batch(target, datas, [budget_for(len(d)) for d in datas])
    return [evaluate(ctx, target, d, labels=lab, origin=org, res=r) for (d, (_, lab, org), r) in zip(datas, items, ress)]


def evaluate(ctx, target, data, labels=(), origin=None, record=True, res=None):
    """Run one case under the oracle. Returns the (first-pass) result dict."""
    data = bytes(data)
    budget = budget_for(len(data))
    if res is None:
        res = sandbox().run(target, data, budget)
    out = res['outcome']
    nt = nontrivial(target, res.get('flags', {}))
    if record:
        oc = out if not out.startswith('exc:') else 'exc'
        lab = ['target:' + target, 'outcome:' + oc, 'reached' if nt else 'rejected-at-header'] + list(labels)
        if out.startswith('exc:'):
            lab.append('%s:%s' % (target, out))
        lab += tail_labels(res.get('flags', {}))
        lab += wide_labels(target, res.get('flags', {}))
        if res.get('cpu') and out != 'timeout':
            # margin of the oracle, measured: how much of its budget did a case that finished use
            frac = res['cpu'] / budget
            if frac >= 0.1:
                lab.append('budget-used>=10%')
                if frac >= 0.33:
                    lab.append('budget-used>=33%')
        ctx.case(nontrivial=nt, key=target.encode() + b'\0' + data, labels=lab,
                 sample={'target': target, 'len': len(data), 'origin': origin, 'outcome': out,
                         'cpu_s': res.get('cpu'), 'head': data[:24].hex()})
        if out == 'exc:MemoryError':
            ctx.count('resource:memory')
        elif out.startswith('crash:'):
            ctx.count('resource:memory' if 'KILL' in out else out)
        elif out == 'stall':
            ctx.count('wall_stall_inconclusive')
        if res.get('flags', {}).get('resolve_skipped'):
            ctx.count('resolve_skipped_cycle_or_fanout_ids', res['flags']['resolve_skipped'])
        if res.get('cpu') and res['cpu'] > 1.0:
            ctx.count('cases_over_1s_cpu')
            if res['cpu'] > 2.5 and out != 'timeout':
                ctx.count('slow>2.5s:%s:%dB:%s' % (target, len(data), (origin or {}).get('seed', '?')))
                _note_slow(ctx, target, data, origin, res)
    if out != 'timeout':
        return res
    first_bucket = bucket_of(target, res['stack'])
    seen = ctx.__dict__.setdefault('_c35_confirmed', {})
    ctx.count('timeouts_first_pass')
    if ctx._shrink_bucket is None and seen.get(first_bucket, 0) >= MAX_CONFIRMS_PER_BUCKET:
        ctx.count('timeouts_not_reconfirmed(bucket already reported)')
        ctx.__dict__['_c35_cpu_spent'] = ctx.__dict__.get('_c35_cpu_spent', 0.0) + budget
        return res
    # confirm alone, fresh child, 3x budget
    sb2 = Sandbox()
    try:
        res2 = sb2.run(target, data, budget * CONFIRM_FACTOR)
    finally:
        sb2.close()
    ctx.__dict__['_c35_cpu_spent'] = ctx.__dict__.get('_c35_cpu_spent', 0.0) + budget * (1 + CONFIRM_FACTOR)
    if res2['outcome'] != 'timeout':
        ctx.count('timeouts_not_confirmed_at_3x')
        return res
    bucket = bucket_of(target, res2['stack'])
    seen[first_bucket] = seen.get(first_bucket, 0) + 1
    if bucket != first_bucket:
        seen[bucket] = seen.get(bucket, 0) + 1
    msg = ('%s did not finish within %.1f s CPU (budget max(5 s, 2 ms x %d bytes) = %.1f s, confirmed alone with 3x); '
           'stack at time-out (outermost first): %s' % (
               target, budget * CONFIRM_FACTOR, len(data), budget,
               ' > '.join('%s:%s:%d' % f for f in res2['stack'][-8:])))
    ctx.fail(bucket, {'target': target, 'data': data, 'origin': origin}, msg)
    return res2


# =====================================================================================================
# harness-side structure scanners (no androguard): where are the boundaries and the count/size/offset fields
# =====================================================================================================
def _u32(b, o):
    return struct.unpack_from('<I', b, o)[0] if 0 <= o <= len(b) - 4 else None


def _u16(b, o):
    return struct.unpack_from('<H', b, o)[0] if 0 <= o <= len(b) - 2 else None


def _read_uleb(b, o):
    v, s = 0, 0
    for i in range(5):
        if o + i >= len(b):
            return None, o + i
        c = b[o + i]
        v |= (c & 0x7f) << s
        s += 7
        if not c & 0x80:
            return v, o + i + 1
    return v, o + 5


def scan_dex(b, extra_offsets=()):
    n = len(b)
    u32 = list(range(0x20, 0x70, 4))
    u16, uleb, bounds = [], [], [0x20, 0x28, 0x70]
    laststr = None
    strnuls = []
    maplist = None
    if n >= 0x70:
        for (cnt_o, off_o, isz) in ((0x38, 0x3c, 4), (0x40, 0x44, 4), (0x48, 0x4c, 12), (0x50, 0x54, 8),
                                    (0x58, 0x5c, 8), (0x60, 0x64, 32)):
            cnt, off = _u32(b, cnt_o), _u32(b, off_o)
            if cnt and off and off < n:
                bounds += [off, min(n, off + cnt * isz)]
                for k in range(min(cnt, 40)):
                    base = off + k * isz
                    if isz in (4, 12, 32):
                        u32 += [base + j for j in range(0, isz, 4) if base + j + 4 <= n]
                    else:
                        u16 += [base, base + 2]
                        u32.append(base + 4)
        # string data items
        cnt, off = _u32(b, 0x38), _u32(b, 0x3c)
        if cnt and off:
            offs = [x for x in (_u32(b, off + 4 * k) for k in range(min(cnt, 400))) if x is not None and x < n]
            for so in offs[:60]:
                uleb.append(so)
                bounds.append(so)
            if offs:
                last = max(offs)
                _, p = _read_uleb(b, last)
                e = b.find(b'\0', p)
                if e >= 0:
                    laststr = (last, e)
                # the terminator of every string (the first 48 and the last 16 in file order when there are more)
                so_sorted = sorted(set(offs))
                for so in (so_sorted if len(so_sorted) <= 64 else so_sorted[:48] + so_sorted[-16:]):
                    _, p = _read_uleb(b, so)
                    e = b.find(b'\0', p)
                    if e >= 0:
                        strnuls.append((so, p, e))
        # class data / static values / code items
        cnt, off = _u32(b, 0x60), _u32(b, 0x64)
        if cnt and off:
            for k in range(min(cnt, 24)):
                cd = _u32(b, off + 32 * k + 24)
                sv = _u32(b, off + 32 * k + 28)
                an = _u32(b, off + 32 * k + 20)
                if sv and sv < n:
                    uleb.append(sv)
                    bounds.append(sv)
                if an and an + 16 <= n:
                    u32 += [an, an + 4, an + 8, an + 12]
                    bounds.append(an)
                if cd and cd < n:
                    bounds.append(cd)
                    p = cd
                    sizes = []
                    for _ in range(4):
                        uleb.append(p)
                        v, p = _read_uleb(b, p)
                        sizes.append(v or 0)
                    nf, nm = sizes[0] + sizes[1], sizes[2] + sizes[3]
                    for _ in range(min(nf, 12)):
                        uleb += [p]
                        _, p = _read_uleb(b, p)
                        _, p = _read_uleb(b, p)
                    for _ in range(min(nm, 12)):
                        uleb.append(p)
                        _, p = _read_uleb(b, p)
                        uleb.append(p)
                        _, p = _read_uleb(b, p)
                        uleb.append(p)
                        co, p = _read_uleb(b, p)
                        if co and co + 16 <= n:
                            bounds.append(co)
                            u16 += [co, co + 2, co + 4, co + 6]
                            u32 += [co + 8, co + 12]
                            dbg = _u32(b, co + 8)
                            if dbg and dbg < n:
                                uleb += [dbg, dbg + 1]
                                bounds.append(dbg)
        mo = _u32(b, 0x34)
        if mo and mo + 4 <= n:
            bounds.append(mo)
            u32.append(mo)
            cnt = _u32(b, mo)
            if cnt and mo + 4 + 12 * cnt <= n:
                maplist = (mo, cnt)
            for k in range(min(cnt or 0, 40)):
                e = mo + 4 + 12 * k
                if e + 12 <= n:
                    u16.append(e)
                    u32 += [e + 4, e + 8]
                    bounds.append(e)
                    so = _u32(b, e + 8)
                    if so and so < n:
                        bounds.append(so)
                        u32.append(so - so % 4)
    for o in extra_offsets:
        if 0 < o < n:
            bounds.append(o)
            uleb.append(o)
    pts = _points(b, u32, u16, uleb, bounds, laststr=laststr, strnuls=strnuls)
    pts['map'] = maplist
    return pts


def _points(b, u32, u16, uleb, bounds, chunks=(), laststr=None, strnuls=()):
    n = len(b)
    return {'u32': sorted({o for o in u32 if 0 <= o <= n - 4}), 'u16': sorted({o for o in u16 if 0 <= o <= n - 2}),
            'uleb': sorted({o for o in uleb if 0 <= o < n}), 'bounds': sorted({o for o in bounds if 0 < o < n}),
            'chunks': list(chunks), 'laststr': laststr, 'strnuls': list(strnuls)}


CONTAINER_CHUNKS = (0x0002, 0x0003, 0x0200)


def walk_chunks(b, off, end, out, depth=0):
    while off + 8 <= end and len(out) < 600:
        t, hs, sz = struct.unpack_from('<HHI', b, off)
        out.append((off, t, hs, sz))
        if sz < 8 or off + sz > end or hs < 8 or hs > sz:
            break
        if t in CONTAINER_CHUNKS and depth < 3:
            # children start after the header (package: type pool, key pool, then typeSpec / type chunks)
            walk_chunks(b, off + hs, off + sz, out, depth + 1)
        off += sz


def scan_res(b):
    chunks = []
    walk_chunks(b, 0, len(b), chunks)
    u32, u16, bounds = [], [], []
    for (off, t, hs, sz) in chunks:
        bounds += [off, off + 8, off + hs, off + sz]
        u16 += [off, off + 2]
        u32.append(off + 4)
        hdr_end = min(off + max(hs, 8), off + 292)
        u32 += list(range(off + 8, hdr_end, 4))
        if t == 0x0001 and hs >= 28:                      # string pool
            sc, yc, fl, ss, ys = struct.unpack_from('<5I', b, off + 8) if off + 28 <= len(b) else (0, 0, 0, 0, 0)
            arr = off + hs
            u32 += [arr + 4 * k for k in range(min(sc + yc, 12))]
            if sc + yc > 12:
                u32 += [arr + 4 * (sc + yc - 1)]
            bounds += [arr, arr + 4 * sc, arr + 4 * (sc + yc), off + ss, off + ys]
            # last string: its end
            bounds += [off + sz - 1, off + sz - 2, off + sz - 4]
        elif t == 0x0201 and hs >= 20:                    # type chunk: entry offsets + entries
            ec, es = (_u32(b, off + 12) or 0), (_u32(b, off + 16) or 0)
            arr = off + hs
            u32 += [arr + 4 * k for k in range(min(ec, 8))]
            u16 += [arr + 2 * k for k in range(min(ec, 8))]
            bounds += [arr, off + es]
            e0 = off + es
            for k in range(0, 6):
                u16 += [e0 + 16 * k, e0 + 16 * k + 2]
                u32 += [e0 + 16 * k + 4, e0 + 16 * k + 8, e0 + 16 * k + 12]
        elif t == 0x0202:
            arr = off + hs
            u32 += [arr + 4 * k for k in range(4)]
        elif 0x0100 <= t <= 0x017f:                      # xml node
            u32 += list(range(off + 8, min(off + sz, off + 76), 4))
            u16 += [off + 24, off + 26, off + 28, off + 30, off + 32, off + 34]
            bounds += [off + 16, off + 36]
    return _points(b, u32, u16, [], bounds, chunks=chunks)


def scan_zip(b):
    n = len(b)
    u32, u16, bounds = [], [], []
    eo = b.rfind(b'PK\x05\x06')
    if eo >= 0 and eo + 22 <= n:
        bounds += [eo, eo + 22]
        u16 += [eo + 4, eo + 6, eo + 8, eo + 10, eo + 20]
        u32 += [eo + 12, eo + 16]
        cd = _u32(b, eo + 16)
        p = cd
        k = 0
        while p is not None and p + 46 <= n and b[p:p + 4] == b'PK\x01\x02' and k < 40:
            bounds.append(p)
            u16 += [p + 8, p + 10, p + 28, p + 30, p + 32]
            u32 += [p + 16, p + 20, p + 24, p + 42]
            lo = _u32(b, p + 42)
            if lo is not None and lo + 30 <= n:
                bounds += [lo, lo + 30]
                u16 += [lo + 6, lo + 8, lo + 26, lo + 28]
                u32 += [lo + 14, lo + 18, lo + 22]
                bounds.append(lo + 30 + (_u16(b, lo + 26) or 0) + (_u16(b, lo + 28) or 0))
            p += 46 + (_u16(b, p + 28) or 0) + (_u16(b, p + 30) or 0) + (_u16(b, p + 32) or 0)
            k += 1
        if cd is not None and cd >= 32 and b[cd - 16:cd] == b'APK Sig Block 42':
            size = struct.unpack_from('<Q', b, cd - 24)[0]
            start = cd - size - 8
            u32 += [cd - 24, cd - 20]
            bounds += [cd - 24, cd - 16, cd]
            if 0 <= start < cd:
                bounds.append(start)
                u32 += [start, start + 4]
                p = start + 8
                k = 0
                while p + 12 <= cd - 24 and k < 12:
                    ln = struct.unpack_from('<Q', b, p)[0]
                    bounds.append(p)
                    u32 += [p, p + 4, p + 8]
                    # nested length prefixes: first words of the value
                    u32 += list(range(p + 12, min(p + 12 + 96, cd - 24), 4))
                    if ln < 4 or p + 8 + ln > cd:
                        break
                    p += 8 + ln
                    k += 1
    return _points(b, u32, u16, [], bounds)


SCAN = {'dex': scan_dex, 'axml': scan_res, 'arsc': scan_res, 'apk': scan_zip}

# =====================================================================================================
# mutation
# =====================================================================================================
HUGE32 = [0x7fffffff, 0xffffffff, 0x80000000, 0xfffffffe, 0x7ffffff0, 0x10000000, 0x00ffffff, 0x0000ffff,
          0x00010000, 0, 1]
HUGE16 = [0, 1, 0xffff, 0x8000, 0x7fff, 7, 8, 0xfffe]
HUGE_ULEB = [b'\xff\xff\xff\xff\x0f', b'\xff\xff\xff\xff\x07', b'\x80\x80\x80\x80\x08', b'\xff\xff\xff\x7f',
             b'\xff\xff\x03', b'\x80\x80\x80\x80\x80', b'\x00']
OPS = ['trunc_bound', 'trunc_random', 'set_u32', 'set_u16', 'chunk_size', 'flip', 'splice', 'insdel', 'uleb',
       'strip_last_nul', 'strip_nul', 'fill_tail', 'tail', 'tail_combo']
# lengths at and around the sizes at which a string reader changes its path: 128-byte read chunks (DEX
# read_null_terminated_string) and their multiples, the 1 -> 2 byte length prefixes (0x80 / 0x100), several chunks
TAIL_LENGTHS = [1, 2, 126, 127, 128, 129, 130, 254, 255, 256, 257, 258, 383, 384, 385, 511, 512, 513, 1000, 1023,
                1024, 1025, 4096, 4097]
NONNUL = (0x41, 0xff, 0x80, 0x01)


# ---- tail-chunk combinations (chunked formats) ------------------------------------------------------------------
# Every chunk walker (AXML pull loop, resource table outer loop, package inner loop) makes progress by seeking to
# header.start + header.size, so the invariant under test is "an accepted header has end > start" - for the LAST chunk
# of the input under every combination of (declared size, declared header size, chunk type, number of bytes left up
# to the end of the buffer). Chunk types from ResourceTypes.h (RES_*_TYPE) plus values no parser knows.
RES_KNOWN_TYPES = [0x0000, 0x0001, 0x0002, 0x0003, 0x0100, 0x0101, 0x0102, 0x0103, 0x0104, 0x0180,
                   0x0200, 0x0201, 0x0202, 0x0203, 0x0204, 0x0205, 0x0206]
RES_UNKNOWN_TYPES = [0x0105, 0x017f, 0x0181, 0x0207, 0x0777, 0xffff]
TAIL_TYPES = [None] + RES_KNOWN_TYPES + RES_UNKNOWN_TYPES
TAIL_HSIZES = [None, 0, 8, 12, 16, 0x18, 0x1c, 0xffff]


def tail_sizes(hs):
    """declared chunk sizes: everything below and at the minimum header, then around the header size"""
    out = list(range(0, 9))
    for v in (hs - 1, hs, hs + 1, hs + 4):
        if v not in out and 0 <= v <= 0xffffffff:
            out.append(v)
    return out


def tail_rests(hs):
    """numbers of bytes left between the start of the chunk and the end of the input: 0 .. header size + 16 (large
    headers: the first 24 values and everything from 8 bytes before the end of the header)"""
    hs = max(8, min(hs, 0x400))
    top = hs + 16
    if hs <= 32:
        return list(range(0, top + 1))
    return list(range(0, 25)) + list(range(hs - 8, top + 1))


def tail_positions(data, chunks, virt=(0x0101, 16)):
    """the chunks of a document plus a chunk appended at its end: [(k, off, type, header size, size)]"""
    pos = [(k, off, t, hs, sz) for k, (off, t, hs, sz) in enumerate(chunks)]
    pos.append((len(chunks), len(data), virt[0], virt[1], virt[1] + 8))
    return pos


def tail_combo(data, chunks, k, size, hsize, ctype, rest, outer, pad=0, virt=(0x0101, 16)):
    """Chunk k of `data` (k == len(chunks): a chunk appended at the end) becomes the last chunk of the input: its size
    field := size, header_size := hsize and type := ctype (None: unchanged), and the input is truncated / padded (byte
    `pad`) so that exactly `rest` bytes are left from the start of that chunk to the end of the input. outer = 0: the
    sizes of the enclosing chunks stay as they are; 1: the root chunk ends at the new end of the input; 2: every
    enclosing chunk does. -> (bytes, offset of the chunk)"""
    n = len(data)
    if k >= len(chunks):
        off, t, hs, sz = n, virt[0], virt[1], virt[1] + 8
        head = struct.pack('<HHI', t, hs, sz)
        anc = [(o, s_) for (o, t_, h_, s_) in chunks if t_ in CONTAINER_CHUNKS and o + s_ == n]
    else:
        off, t, hs, sz = chunks[k]
        head = b''
        anc = [(o, s_) for j, (o, t_, h_, s_) in enumerate(chunks)
               if j != k and t_ in CONTAINER_CHUNKS and o <= off and off + 8 <= o + s_]
    new_len = off + rest
    b = bytearray(data) + head
    if new_len <= len(b):
        del b[new_len:]
    else:
        b += bytes([pad]) * (new_len - len(b))
    if ctype is not None and off + 2 <= new_len:
        struct.pack_into('<H', b, off, ctype)
    if hsize is not None and off + 4 <= new_len:
        struct.pack_into('<H', b, off + 2, hsize)
    if size is not None and off + 8 <= new_len:
        struct.pack_into('<I', b, off + 4, size & 0xffffffff)
    if outer:
        for (o, s_) in anc:
            if (outer == 2 or o == 0) and o + 8 <= new_len and o != off:
                struct.pack_into('<I', b, o + 4, new_len - o)
    return bytes(b), off


def tail_labels_res(fmt, off, size, hsize, ctype, hs, t, rest, outer):
    hsn = hs if hsize is None else hsize
    d = rest - hsn
    lab = [fmt + ':tail-chunk-combo',
           'tail:size' + ('<8' if size < 8 else '=8' if size == 8 else '<hdr' if size < hsn else '>=hdr'),
           'tail:hsize-' + ('kept' if hsize is None else 'altered'),
           'tail:type-' + ('kept' if ctype is None or ctype == t else 'known' if ctype in RES_KNOWN_TYPES else 'unknown'),
           'tail:rest-hdr' + ('<0' if d < 0 else '=0' if d == 0 else '=1..7' if d < 8 else '=8' if d == 8 else '=9..16'
                              if d <= 16 else '>16'),
           'tail:outer-' + ('as-is' if not outer else 'consistent')]
    return lab


# ---- DEX analogue: the map_list (a count followed by 12-byte items with a size and an offset each) -----------------
MAP_ITEM_EDITS = ['none', 'size0', 'size-huge', 'off-eof', 'off-self', 'off-map', 'size1+off-eof-1']


def tail_map_counts(cnt):
    return [0, 1, max(0, cnt - 1), cnt, cnt + 1, cnt + 2, 0xffff, 0xffffffff]


def tail_map_rests(cnt):
    """bytes left between the start of the map_list and the end of the input"""
    out = [0, 1, 3, 4, 5]
    for j in (0, 1, cnt - 1, cnt, cnt + 1):
        for d in (0, 2, 4, 8, 11):
            v = 4 + 12 * j + d
            if v > 0 and v not in out:
                out.append(v)
    return out


def tail_map_case(data, maplist, count, rest, edit, fix_size):
    """the map_list becomes the last structure of the file: its count := count, the file is cut / padded so that `rest`
    bytes are left from the start of the list, the last complete item is edited (size / offset), file_size follows for
    fix_size; checksums are NOT fixed here"""
    mo, cnt = maplist
    new_len = max(0x70, mo + rest)
    b = bytearray(data[:new_len])
    b += b'\0' * (new_len - len(b))
    if mo + 4 <= new_len:
        struct.pack_into('<I', b, mo, count)
    items = min((new_len - mo - 4) // 12, count) if new_len >= mo + 4 else 0
    if items > 0 and edit != 'none':
        e = mo + 4 + 12 * (items - 1)
        if edit == 'size0':
            struct.pack_into('<I', b, e + 4, 0)
        elif edit == 'size-huge':
            struct.pack_into('<I', b, e + 4, 0xffffffff)
        elif edit == 'off-eof':
            struct.pack_into('<I', b, e + 8, new_len)
        elif edit == 'off-self':
            struct.pack_into('<I', b, e + 8, e)
        elif edit == 'off-map':
            struct.pack_into('<I', b, e + 8, mo)
        else:
            struct.pack_into('<II', b, e + 4, 1, new_len - 1)
    if fix_size and len(b) >= 0x24:
        struct.pack_into('<I', b, 0x20, len(b))
    return bytes(b)


def tail_map_combo(data, maplist, a, b_, c):
    mo, cnt = maplist
    counts, rests = tail_map_counts(cnt), tail_map_rests(cnt)
    return tail_map_case(data, maplist, counts[a % len(counts)], rests[c % len(rests)],
                         MAP_ITEM_EDITS[b_ % len(MAP_ITEM_EDITS)], (a >> 4) & 1)


def special32(buf, pos, sel):
    n = len(buf)
    vals = HUGE32 + [n, n - 1, n + 1, pos, max(0, pos - 8), max(0, pos - 4), n - 4, (-1 - sel) & 0xffffffff,
                     (-(sel % 64) * 4) & 0xffffffff, 0xffffff00, n * 2]
    return vals[sel % len(vals)] & 0xffffffff


def apply_op(fmt, buf, pts, op):
    """buf: bytearray (mutated in place or replaced); returns (bytearray, label)"""
    kind, a, b_, c = op
    name = OPS[kind % len(OPS)]
    n = len(buf)
    if n == 0:
        return buf, 'noop'
    if name == 'chunk_size' and not pts['chunks']:
        name = 'set_u32'
    if name == 'tail_combo' and (fmt not in ('axml', 'arsc') or not pts['chunks']):
        name = 'tail_map' if fmt == 'dex' and pts.get('map') else 'trunc_bound'
    if name == 'uleb' and not pts['uleb']:
        name = 'set_u32'
    if name == 'strip_last_nul' and not pts.get('laststr'):
        name = 'trunc_bound'
    if name == 'strip_nul' and not pts.get('strnuls'):
        name = 'fill_tail'
    if name == 'set_u16' and not pts['u16']:
        name = 'set_u32'
    if name == 'set_u32' and not pts['u32']:
        name = 'flip'
    if name == 'trunc_bound' and not pts['bounds']:
        name = 'trunc_random'
    if name == 'trunc_bound':
        cut = pts['bounds'][a % len(pts['bounds'])] + (0, 0, 0, 1, -1, 2, -2, 4, -4)[c % 9]
        cut = max(1, min(n, cut))
        return buf[:cut], name
    if name == 'trunc_random':
        return buf[:max(1, a % (n + 1))], name
    if name == 'set_u32':
        pos = pts['u32'][a % len(pts['u32'])]
        if pos + 4 <= n:
            struct.pack_into('<I', buf, pos, special32(buf, pos, b_))
        return buf, name
    if name == 'set_u16':
        pos = pts['u16'][a % len(pts['u16'])]
        if pos + 2 <= n:
            struct.pack_into('<H', buf, pos, HUGE16[b_ % len(HUGE16)])
        return buf, name
    if name == 'chunk_size':
        off, t, hs, sz = pts['chunks'][a % len(pts['chunks'])]
        if off + 8 <= n:
            which = b_ % 12
            if which < 8:
                v = [0, 1, 4, 7, 8, max(0, hs - 1), hs, sz + 4][which]
                struct.pack_into('<I', buf, off + 4, v & 0xffffffff)
            elif which < 10:
                struct.pack_into('<H', buf, off + 2, [0, 4, 0xffff, 8][(which + c) % 4])
            else:
                struct.pack_into('<HI', buf, off + 2, 0, 0)
        return buf, name
    if name == 'tail_combo':
        # a drawn tail-chunk combination (see tail_combo); the last chunks get half of the picks
        chunks = pts['chunks']
        virt = (0x0101, 16) if fmt == 'axml' else (0x0203, 12)
        k = (len(chunks) - (a >> 4) % min(3, len(chunks) + 1)) if a & 1 else (a >> 4) % (len(chunks) + 1)
        hs = chunks[k][2] if k < len(chunks) else virt[1]
        hsize = TAIL_HSIZES[(b_ >> 8) % len(TAIL_HSIZES)] if (b_ >> 4) & 1 else None
        hsn = hsize if hsize is not None and 8 <= hsize <= 0x40 else hs
        sizes = tail_sizes(hsn)
        rests = tail_rests(max(hs, hsn) if (b_ >> 5) & 1 else hsn)
        out, _ = tail_combo(bytes(buf), chunks, k, sizes[b_ % 16 % len(sizes)], hsize,
                            TAIL_TYPES[(b_ >> 16) % len(TAIL_TYPES)] if (b_ >> 6) & 1 else None,
                            rests[c % len(rests)], (0, 1, 2, 2)[(a >> 1) & 3], pad=(0, 0xff)[(a >> 3) & 1], virt=virt)
        return bytearray(out), name
    if name == 'tail_map':
        return bytearray(tail_map_combo(bytes(buf), pts['map'], a, b_, c)), name
    if name == 'flip':
        k = 1 + c % 4
        x = a
        for i in range(k):
            pos = x % n
            buf[pos] ^= 1 << ((b_ >> (3 * i)) & 7) if (b_ >> 12) & 1 else (0xff if i % 2 else 0x80)
            x = x * 1103515245 + 12345
        return buf, name
    if name == 'splice':
        ln = 1 + c % 64
        src = a % n
        dst = b_ % n
        chunk = bytes(buf[src:src + ln])
        buf[dst:dst + len(chunk)] = chunk
        return buf[:max(n, dst + len(chunk))], name
    if name == 'insdel':
        pos = a % n
        ln = 1 + c % 32
        if b_ & 1:
            del buf[pos:pos + ln]
            if not buf:
                buf = bytearray(b'\0')
        else:
            buf[pos:pos] = bytes([(0xff, 0x00, 0x80, 0x41)[(b_ >> 1) & 3]]) * ln
        return buf, name
    if name == 'uleb':
        pos = pts['uleb'][a % len(pts['uleb'])]
        v = HUGE_ULEB[b_ % len(HUGE_ULEB)]
        buf[pos:pos + len(v)] = v
        return buf, name
    if name == 'strip_last_nul':
        start, nul = pts['laststr']
        # cut the file so that the last string has no terminator before EOF (keep 0..k of its bytes)
        keep = nul if c % 3 else max(start + 1, nul - (a % 4))
        return buf[:max(1, keep)], name
    if name == 'strip_nul':
        # the terminator of string k (any k; the last three strings in the file get half of the picks) is overwritten
        # with a non-NUL byte: the string runs into whatever follows. mode 2: every later NUL byte goes too, so that
        # the run continues through the following data to EOF; mode 3: the terminator is deleted instead.
        sn = pts['strnuls']
        so, p, e = sn[-1 - (a % min(3, len(sn)))] if (b_ >> 4) & 1 else sn[a % len(sn)]
        if e >= n:
            return buf, 'noop'
        fill = NONNUL[(b_ >> 1) & 3]
        mode = c % 4
        if mode == 3:
            del buf[e:e + 1]
            if not buf:
                buf = bytearray(b'\0')
        elif mode == 2:
            buf[e:] = bytes(buf[e:]).replace(b'\0', bytes([fill]))
        else:
            buf[e] = fill
        return buf, name
    if name == 'fill_tail':
        # no NUL byte from a structural boundary / random point to EOF (whatever is NUL- or zero-terminated there
        # now runs to the end of the input)
        p = pts['bounds'][a % len(pts['bounds'])] if (pts['bounds'] and c % 3) else a % n
        buf[p:] = bytes(buf[p:]).replace(b'\0', bytes([NONNUL[(b_ >> 1) & 3]]))
        return buf, name
    if name == 'tail':
        # N non-NUL bytes appended at EOF, N at / around the chunk and length-prefix boundaries. mode 0: plain append;
        # other modes: the trailing NUL byte(s) of the file are dropped first (string data last in a DEX file: the
        # last string loses its terminator) and N is chosen so that the unterminated run itself has a boundary length
        T = TAIL_LENGTHS[a % len(TAIL_LENGTHS)]
        mode = c % 4
        add = T
        if mode:
            ls = pts.get('laststr')
            if fmt == 'dex' and ls and ls[1] == n - 1:
                del buf[n - 1:]
                _, p = _read_uleb(buf, ls[0])
                add = T - (len(buf) - p)
            else:
                k = 0
                while len(buf) > 1 and k < 4 and buf[-1] == 0:
                    buf.pop()
                    k += 1
                # distance from the last NUL left in the file, + 0..2 bytes for a length prefix
                add = T - (len(buf) - 1 - buf.rfind(b'\0')) + (b_ >> 8) % 3
            if add < 0:
                add = T
        buf += bytes([NONNUL[(b_ >> 1) & 3]]) * add
        if b_ & 1:
            # the declared size follows: DEX file_size; zip: the appended bytes become the archive comment
            if fmt == 'dex' and len(buf) >= 0x24:
                struct.pack_into('<I', buf, 0x20, len(buf))
            elif fmt == 'apk':
                eo = buf.rfind(b'PK\x05\x06')
                if eo >= 0 and eo + 22 <= len(buf):
                    struct.pack_into('<H', buf, eo + 20, min(0xffff, len(buf) - eo - 22))
        return buf, name
    return buf, 'noop'


def fix_dex(buf):
    if len(buf) < 0x20:
        return buf
    buf = bytearray(buf)
    buf[12:32] = hashlib.sha1(bytes(buf[32:])).digest()
    buf[8:12] = struct.pack('<I', zlib.adler32(bytes(buf[12:])) & 0xffffffff)
    return buf


def mutate(seed, ops, post):
    fmt = seed['fmt']
    buf = bytearray(seed['data'])
    pts = seed['pts']
    labels = []
    for i, op in enumerate(ops):
        if i > 0 and len(buf) != len(seed['data']):
            pts = SCAN[fmt](bytes(buf))          # lengths changed: rescan
        buf, lab = apply_op(fmt, buf, pts, op)
        labels.append('op:' + lab)
        if lab == 'tail_combo':
            labels.append(fmt + ':tail-chunk-combo')
        elif lab == 'tail_map':
            labels.append('dex:tail-map-combo')
    if fmt == 'dex':
        if post < 85:
            buf = fix_dex(buf)
            labels.append('dex:checksums-fixed')
        else:
            labels.append('dex:checksums-stale')
    elif fmt in ('axml', 'arsc'):
        if post < 50 and len(buf) >= 8:
            struct.pack_into('<I', buf, 4, len(buf))
            labels.append('res:outer-size-fixed')
        else:
            labels.append('res:outer-size-as-mutated')
    return bytes(buf), labels


# =====================================================================================================
# seeds
# =====================================================================================================
def _examples(strategy, n, seedval):
    from hypothesis import given, seed
    out = []

    @seed(seedval)
    @hyp_settings(n)
    @given(strategy)
    def f(v):
        out.append(v)
    f()
    return out[:n]


def _emptied():
    try:
        with open(EMPTIED) as f:
            return {l.strip() for l in f if l.strip()}
    except OSError:
        return set()


def _shipped_files():
    skip = _emptied()
    out = []
    for root, _, files in os.walk(SHIPPED_DATA):
        for fn in sorted(files):
            p = os.path.join(root, fn)
            rel = os.path.relpath(p, os.path.dirname(os.path.dirname(SHIPPED_DATA)))
            if rel in skip:
                continue
            try:
                sz = os.path.getsize(p)
            except OSError:
                continue
            if 0 < sz <= MAX_SEED_BYTES:
                out.append((rel, p, sz))
    out.sort()
    return out


def _mk(fmt, name, data, extra=()):
    data = bytes(data)
    pts = scan_dex(data, extra) if fmt == 'dex' else SCAN[fmt](data)
    return {'fmt': fmt, 'name': name, 'data': data, 'pts': pts}


_SEED_CACHE = {}


def build_seeds(fmt, seedval, tier):
    """-> list of seed dicts for `fmt`, smallest first (deterministic for a given VERIF_SEED)"""
    key = (fmt, seedval, tier)
    if key in _SEED_CACHE:
        return _SEED_CACHE[key]
    big = tier != 'quick'
    seeds = []
    shipped = _shipped_files()
    members = {'axml': [], 'arsc': [], 'dex': []}
    apks = []
    for rel, p, sz in shipped:
        low = rel.lower()
        if low.endswith('.apk'):
            with open(p, 'rb') as f:
                data = f.read()
            apks.append((rel, data))
            try:
                with zipfile.ZipFile(io.BytesIO(data)) as zf:
                    for zi in zf.infolist():
                        if zi.file_size > MAX_SEED_BYTES or zi.file_size == 0:
                            continue
                        k = ('axml' if zi.filename == 'AndroidManifest.xml' else
                             'arsc' if zi.filename == 'resources.arsc' else
                             'dex' if zi.filename.endswith('.dex') and '/' not in zi.filename else None)
                        if k:
                            members[k].append((rel + '!' + zi.filename, zf.read(zi)))
            except Exception:
                pass                     # deliberately broken shipped archives: used as APK seeds only
    if fmt == 'dex':
        from vf.gen import dexstrat, dexgen
        models = _examples(dexstrat.dex_models(min_classes=1, max_classes=3, static_values=True, annotations=True,
                                               tries=True, max_name=4), 14, seedval * 13 + 1)
        orders = [None,
                  ['type_list', 'code', 'annotation_item', 'annotation_set', 'annotations_directory', 'encoded_array',
                   'class_data', 'map', 'string_data'],
                  ['string_data', 'map', 'class_data', 'encoded_array', 'annotations_directory', 'annotation_set',
                   'annotation_item', 'code', 'type_list']]
        for i, df in enumerate(models):
            order = orders[i % 3]
            data = df.build(section_order=order)
            if order is orders[1]:
                # string data last in the file: drop the writer's final alignment padding so that the terminator of
                # the last string is the last byte of the file
                data = dexgen.fix_checksums(_strip_tail_padding(data))
            seeds.append(_mk('dex', 'gen%d:%s' % (i, 'default' if order is None else ('strlast' if order is orders[1]
                                                                                     else 'reversed')),
                             data, sorted(set(df.offsets.values()))))
        # string pools with strings whose MUTF-8 length sits at / around the string reader's chunk boundaries
        # (127/128/129, 255/256, ..., 1000+: several chunks), sorting last / first / in the middle of the pool, 1-, 2-
        # and 3-byte code units; string data last in the file for 8 of 10 (the terminator of the last string is then the
        # last byte of the file), default layout (other sections and the map follow the strings) for the rest
        picks = _examples(st.lists(st.tuples(st.sampled_from(TAIL_LENGTHS[2:]), st.sampled_from(_BOUNDARY_FIRST),
                                             st.sampled_from(_BOUNDARY_ALPHA)), min_size=1, max_size=4),
                          10, seedval * 13 + 7)
        lmodels = _examples(dexstrat.dex_models(min_classes=1, max_classes=2, static_values=True, max_name=4), 10,
                            seedval * 13 + 8)
        for i, df in enumerate(lmodels):
            forced = (TAIL_LENGTHS[2 + (seedval * 5 + i * 7) % (len(TAIL_LENGTHS) - 2)],
                      _BOUNDARY_FIRST[-1 - i % 2] if i % 4 != 3 else _BOUNDARY_FIRST[0], _BOUNDARY_ALPHA[i % len(_BOUNDARY_ALPHA)])
            texts = [boundary_text(n, first, alpha) for (n, first, alpha) in [forced] + list(picks[i % len(picks)])]
            df.extra_refs = list(df.extra_refs) + [('s', t) for t in texts]
            strlast = i % 5 != 4
            data = df.build(section_order=orders[1] if strlast else None)
            if strlast:
                data = dexgen.fix_checksums(_strip_tail_padding(data))
            seeds.append(_mk('dex', 'genL%d:%s' % (i, 'strlast' if strlast else 'default'), data,
                             sorted(set(df.offsets.values()))))
        for rel, p, sz in shipped:
            if rel.lower().endswith('.dex') and (big or sz <= 4096):
                with open(p, 'rb') as f:
                    seeds.append(_mk('dex', rel, f.read()))
        seen = set()
        for name, data in members['dex']:
            h = hashlib.sha1(data).digest()
            if h in seen or (not big and len(data) > 8192):
                continue
            seen.add(h)
            seeds.append(_mk('dex', name, data))
    elif fmt == 'axml':
        from vf.gen import axmlgen
        docs = _examples(axmlgen.documents(max_depth=3, mixed=True), 14, seedval * 13 + 2)
        docs += [d for d in _examples(axmlgen.documents(max_depth=2, mixed=True, long_strings=True), 8, seedval * 13 + 6)
                 if len(axmlgen.build(d)) > 40000][:1]
        for i, d in enumerate(docs):
            seeds.append(_mk('axml', 'gen%d' % i, axmlgen.build(d)))
        # attribute strings at / around the 1 -> 2 byte (UTF-8: 0x80 chars or bytes) and 1 -> 2 word (UTF-16: 0x8000
        # units) length-prefix boundaries
        for nm, utf8, lens in (('genL-utf8', True, (127, 128, 129, 255, 256, 257, 1000, 0x7fff)),
                               ('genL-utf16', False, (127, 128, 129, 255, 256, 0x7fff, 0x8000))):
            kids = [axmlgen.E('meta-data', attrs=[axmlgen.a_str('name', 'k%d' % j, with_resid=True),
                                                  axmlgen.a_str('value', boundary_text(
                                                      n, 'v', _BOUNDARY_ALPHA[j % 2] if utf8 else 'xyz', units=not utf8),
                                                      with_resid=True)])
                    for j, n in enumerate(lens)]
            if utf8:    # 64 two-byte chars: character count below, byte count at the boundary
                kids.append(axmlgen.E('meta-data', attrs=[axmlgen.a_str('value', '\u00e9' * 64, with_resid=True)]))
            root = axmlgen.manifest_root('com.example.longstrings', children=[axmlgen.E('application', children=kids)])
            seeds.append(_mk('axml', nm, axmlgen.build_axml(root, utf8=utf8)))
        from vf.gen import zipgen
        seeds.append(_mk('axml', 'zipgen.MINIMAL_MANIFEST', zipgen.MINIMAL_MANIFEST))
        for rel, p, sz in shipped:
            if '/AXML/' in rel and rel.endswith('.xml') and (big or sz <= 13000):
                with open(p, 'rb') as f:
                    seeds.append(_mk('axml', rel, f.read()))
        seen = set()
        for name, data in members['axml']:
            h = hashlib.sha1(data).digest()
            if h in seen or (not big and len(data) > 6000):
                continue
            seen.add(h)
            seeds.append(_mk('axml', name, data))
            if not big and len(seen) >= 8:
                break
    elif fmt == 'arsc':
        from vf.gen import arscgen
        tabs = _examples(arscgen.tables(cycles=False, max_packages=2, max_types=4, max_entries=6, max_configs=3),
                         16, seedval * 13 + 3)
        seeds.append(_mk('arsc', 'simple_table', arscgen.build(arscgen.simple_table())))
        # string values at / around the length-prefix boundaries of the value pool (UTF-8 and UTF-16)
        for nm, utf8, lens in (('genL-utf8', True, (127, 128, 129, 255, 256, 257, 1000, 0x7fff)),
                               ('genL-utf16', False, (127, 128, 129, 255, 256, 0x7fff, 0x8000))):
            t = arscgen.simple_table()
            t['utf8'] = utf8
            t['pool_extra'] = ['\u00e9' * 64] if utf8 else []
            t['packages'][0]['types'][0] = {'name': 'string', 'entry_count': len(lens), 'chunks': [
                {'config': arscgen.make_config(), 'offsets': '32', 'entries': [
                    [j, {'kind': 'plain', 'key': 'long%d' % j, 'value': [arscgen.TYPE_STRING, boundary_text(
                        n, 'v', _BOUNDARY_ALPHA[j % 2] if utf8 else 'xyz', units=not utf8)]}]
                    for j, n in enumerate(lens)]}]}
            seeds.append(_mk('arsc', nm, arscgen.build(t)))
        for i, t in enumerate(tabs):
            seeds.append(_mk('arsc', 'gen%d' % i, arscgen.build(t)))
        seen = set()
        for name, data in members['arsc']:
            h = hashlib.sha1(data).digest()
            if h in seen or (not big and len(data) > 6000):
                continue
            seen.add(h)
            seeds.append(_mk('arsc', name, data))
    elif fmt == 'apk':
        from vf.gen import zipgen, sigblock, arscgen, dexstrat
        pls = _examples(st.tuples(sigblock.pair_lists(max_signers=2), zipgen.zip_options, sigblock.pad_options,
                                  st.integers(0, 3)), 10, seedval * 13 + 4)
        dexes = [m.build() for m in _examples(dexstrat.dex_models(min_classes=1, max_classes=2, max_name=4), 3,
                                              seedval * 13 + 5)]
        arsc = arscgen.build(arscgen.simple_table())
        for i, (pairs, zopt, pad, shape) in enumerate(pls):
            entries = [('classes.dex', dexes[i % len(dexes)], zipgen.DEFLATED)]
            if shape & 1:
                entries.append(('resources.arsc', arsc, zipgen.STORED))
            if shape & 2:
                entries.append(('res/raw/x.bin', b'x' * 37, zipgen.STORED))
            z = zipgen.build_apk(entries, comment=zopt['comment'], data_descriptors=zopt['data_descriptors'],
                                 align=zopt['align'], compresslevel=zopt['compresslevel'])
            try:
                data = sigblock.sign_zip(z, pairs, pad if i % 4 == 0 else 0)
            except sigblock.SigBlockError:
                data = z
            seeds.append(_mk('apk', 'gen%d' % i, data))
        # archive comments of boundary lengths (the EOCD record is searched backwards through the comment)
        for j, n in enumerate((128, 256, 4097, 0xffff)):
            z = zipgen.build_apk([('classes.dex', dexes[j % len(dexes)], zipgen.DEFLATED)], comment=b'c' * n)
            try:
                data = sigblock.sign_zip(z, pls[j % len(pls)][0], 0) if j % 2 else z
            except sigblock.SigBlockError:
                data = z
            seeds.append(_mk('apk', 'genC%d:comment%d' % (j, n), data))
        picked = 0
        for k, (rel, data) in enumerate(apks):
            small = len(data) <= 17100
            if (big and (k % 4 == 0 or 'v3' in rel or not small)) or \
                    (not big and small and (k % 7 == 0 or 'v3' in rel or 'v31' in rel)):
                if picked >= (34 if not big else 110):
                    break
                seeds.append(_mk('apk', rel, data))
                picked += 1
    uniq, seen_h = [], set()
    for s in seeds:
        h = hashlib.sha1(s['data']).digest()
        if h not in seen_h:
            seen_h.add(h)
            uniq.append(s)
    seeds = uniq
    seeds.sort(key=lambda s: (len(s['data']), s['name']))
    if not seeds:
        raise HarnessError('no %s seeds' % fmt)
    _SEED_CACHE[key] = seeds
    return seeds


_BOUNDARY_FIRST = ['!', 'M', 'b', '\u00e9', '~', '\uffee']          # sorts first ... last in a DEX string pool
_BOUNDARY_ALPHA = ['abcdefghij', 'a\u00e9b\u4e2d', '\u4e2d\u6587', 'x\x00y', '\u00e9\u00fc']


def boundary_text(n, first, alpha, units=False):
    """a string of exactly n encoded bytes (MUTF-8 as in a DEX string_data_item / UTF-8 in a resource string pool:
    identical for the alphabets used here except U+0000 = C0 80) or, with units=True, of n UTF-16 code units: `first`,
    then the characters of `alpha` in turn, padded with 'a'"""
    def cost(ch):
        if units:
            return 1
        c = ord(ch)
        return 2 if c == 0 else 1 if c < 0x80 else 2 if c < 0x800 else 3
    out, left, i = [], n, 0
    for ch in first:
        if cost(ch) <= left:
            out.append(ch)
            left -= cost(ch)
    while left > 0:
        ch = alpha[i % len(alpha)]
        i += 1
        if cost(ch) > left:
            ch = 'a'
        out.append(ch)
        left -= cost(ch)
    return ''.join(out)


def _strip_tail_padding(data):
    """dexgen pads the file to 4 bytes with NULs; when string data is the last section remove that padding (the last
    byte is then the terminator of the last string) and patch file_size/data_size."""
    b = bytearray(data)
    k = 0
    while len(b) > 0x70 and k < 3 and b[-1] == 0 and b[-2] == 0:
        b.pop()
        k += 1
    if k:
        struct.pack_into('<I', b, 0x20, len(b))
        ds = struct.unpack_from('<I', b, 0x68)[0]
        struct.pack_into('<I', b, 0x68, max(0, ds - k))
    return bytes(b)


def inner_apk(fmt, payload, stored=False):
    """package a mutated manifest / resource table / dex into an otherwise valid zip (independent writer). stored: the
    payload is not compressed (wide payloads are very regular: deflate would shrink them - and with them the budget,
    which follows the length of the input - by two orders of magnitude while the parse still sees every item)"""
    from vf.gen import zipgen, arscgen
    if fmt == 'axml':
        rest = [('resources.arsc', arscgen.build(arscgen.simple_table()), zipgen.STORED)]
        if stored:
            return zipgen.build_apk([(zipgen.MANIFEST_NAME, payload, zipgen.STORED)] + rest)
        return zipgen.build_apk(rest, manifest=payload)
    if fmt == 'arsc':
        return zipgen.build_apk([('resources.arsc', payload, zipgen.STORED)], manifest=_manifest_with_refs())
    return zipgen.build_apk([('classes.dex', payload, zipgen.STORED if stored else zipgen.DEFLATED)])


_MREF = []


def _manifest_with_refs():
    """a manifest whose label/icon are resource references, so that APK queries go through the resource table"""
    if not _MREF:
        from vf.gen import axmlgen as A
        root = A.manifest_root('com.example.app', attrs=[A.a_int('versionCode', 1, with_resid=True)], children=[
            A.E('application', attrs=[A.a_ref('label', 0x7f010000, with_resid=True),
                                      A.a_ref('icon', 0x7f020000, with_resid=True)],
                children=[A.E('activity', attrs=[A.a_str('name', '.Main', with_resid=True)])])])
        _MREF.append(A.build_axml(root))
    return _MREF[0]


# =====================================================================================================
# wide seeds: ONE structure with thousands of items (a per-structure count is the only large thing in the input)
# =====================================================================================================
# Every per-structure count a parser loops over gets inputs in which that count is 300 / 1 200 / 2 500 / 5 000 / 20 000 while
# everything else stays minimal, so that anything super-linear in the count, or any pool / table of fixed size that is
# exhausted by it, shows against the same budget as everything else (max(5 s, 2 ms x len): the items are really
# present in the bytes, so the budget grows with them - linearly). Built with the independent writers where they can
# express the shape and byte by byte where they cannot (string indices outside the pool, repeated map items, ...).
# A seed = {'fmt', 'name', 'shape', 'n', 'data', 'arrays'}; arrays = [{'start', 'stride', 'count', 'fields' (offsets of
# u32 fields inside an item), 'count_at' ((offset, width) of the declared count) | None, 'pool' (strings in the pool the
# fields index)}] describe where the wide structure sits, for the wide mutations.
WIDE_N = (300, 1200, 2500, 5000, 20000)   # 300: small enough to be mutated cheaply (see _run_wide), still 10x the other seeds
NOE = 0xffffffff


def _w(fmt, shape, n, data, arrays=()):
    return {'fmt': fmt, 'name': 'wide:%s:%d' % (shape, n), 'shape': shape, 'n': n, 'data': bytes(data),
            'arrays': [dict(a) for a in arrays]}


def _xn(t, ext, line=1):
    return struct.pack('<HHIII', t, 16, 16 + len(ext), line, NOE) + ext


def _xattr(ns, name, raw, typ, data):
    return struct.pack('<IIIHBBI', ns, name, raw, 8, 0, typ, data & 0xffffffff)


def _xstart(ns, name, attrs=(), asize=20):
    return _xn(0x0102, struct.pack('<IIHHHHHH', ns, name, 20, asize, len(attrs) & 0xffff, 0, 0, 0) + b''.join(attrs))


def _xend(ns, name):
    return _xn(0x0103, struct.pack('<II', ns, name))


def _xns(t, prefix, uri):
    return _xn(t, struct.pack('<II', prefix, uri))


def _xdoc(strings, body, resmap=(), utf8=False):
    """-> (document bytes, offset of `body` in it)"""
    from vf.gen import axmlgen as A
    sp = A.string_pool(strings, utf8)
    rm = (struct.pack('<HHI', 0x0180, 8, 8 + 4 * len(resmap)) + struct.pack('<%dI' % len(resmap), *resmap)) if resmap else b''
    return struct.pack('<HHI', 0x0003, 8, 8 + len(sp) + len(rm) + len(body)) + sp + rm + body, 8 + len(sp) + len(rm)


def wide_axml(n, full=True, only=None):
    from vf.gen import axmlgen as A
    out = []

    def add(seed):
        if only is None or seed['shape'] in only:
            out.append(seed)

    def attrs(shape, strings, names, en=0, resmap=(), ns=NOE, typ=0x10, raws=None, pre=b'', post=b'', utf8=False):
        if only is not None and 'attrs:' + shape not in only:
            return
        ab = [_xattr(ns, names[i], raws[i] if raws else NOE, typ, raws[i] if raws else i) for i in range(n)]
        data, off = _xdoc(strings, pre + _xstart(NOE, en, ab) + _xend(NOE, en) + post, resmap, utf8)
        off += len(pre)
        add(_w('axml', 'attrs:' + shape, n, data, [
            {'what': 'attr', 'start': off + 36, 'stride': 20, 'count': n, 'fields': (4, 0, 8, 16), 'count_at': (off + 28, 2),
             'pool': len(strings)}]))
    # attribute name index: outside the pool (no string, no resource id -> a generated name), absent, valid ...
    attrs('name-noentry', ['e'], [NOE] * n)
    attrs('name-oob', ['e'], [1 + i for i in range(n)])
    attrs('name-oob-equal', ['e'], [7] * n)
    attrs('name-empty-string', ['e', ''], [1] * n)
    attrs('name-valid', ['e'] + ['a%d' % i for i in range(n)], [1 + i for i in range(n)], utf8=True)
    attrs('name-equal', ['e', 'a'], [1] * n)
    # names through the resource map: unknown system ids with blanked pool names; known public ids (36 of them, repeated)
    if full or n <= 5000:          # lxml's attribute set is quadratic in the number of distinct names (9 s at 20 000)
        attrs('name-resmap-unknown', [''] * n + ['e'], list(range(n)), en=n, resmap=[0x01019000 + i for i in range(n)], utf8=True)
    known = sorted(A.ANDROID_ATTR_IDS.items(), key=lambda kv: kv[1])
    k = len(known)
    attrs('name-resmap-known', [nm for nm, _ in known] + ['e', 'android', A.NS_ANDROID], [i % k for i in range(n)], en=k,
          resmap=[rid for _, rid in known], ns=k + 2, pre=_xns(0x0100, k + 1, k + 2), post=_xns(0x0101, k + 1, k + 2))
    if full:
        attrs('value-strings', ['e'] + ['a%d' % i for i in range(n)] + ['v%d' % i for i in range(n)],
              [1 + i for i in range(n)], typ=0x03, raws=[1 + n + i for i in range(n)])
        attrs('value-oob-strings', ['e', 'a'], [1] * n, typ=0x03, raws=[2 + i for i in range(n)])
        attrs('ns-oob', ['e'], [NOE] * n, ns=5)
    # n children / text chunks / root-level siblings
    child = _xstart(NOE, 1, [_xattr(NOE, 2, NOE, 0x10, 1)]) + _xend(NOE, 1)
    data, off = _xdoc(['r', 'c', 'a', 't'], _xstart(NOE, 0) + child * n + _xend(NOE, 0))
    add(_w('axml', 'children', n, data, [{'start': off + 36, 'stride': len(child), 'count': n, 'fields': (20, 40, 52),
                                                 'count_at': None, 'pool': 4}]))
    text = _xn(0x0104, struct.pack('<IHBBI', 3, 8, 0, 0, 0))
    data, off = _xdoc(['r', 'c', 'a', 't'], _xstart(NOE, 0) + text * n + _xend(NOE, 0))
    add(_w('axml', 'text-chunks', n, data, [{'start': off + 36, 'stride': len(text), 'count': n, 'fields': (16,),
                                                    'count_at': None, 'pool': 4}]))
    if full:
        data, off = _xdoc(['r', 'c', 'a', 't'], child * n)
        add(_w('axml', 'root-siblings', n, data, [{'start': off, 'stride': len(child), 'count': n, 'fields': (20, 40),
                                                          'count_at': None, 'pool': 4}]))
    # n namespace mappings in scope: distinct / all the same pair / never closed / closed without having been opened
    strs = ['r'] + ['p%d' % i for i in range(n)] + ['urn:u%d' % i for i in range(n)]
    sns = b''.join(_xns(0x0100, 1 + i, 1 + n + i) for i in range(n))
    ens = b''.join(_xns(0x0101, 1 + i, 1 + n + i) for i in reversed(range(n)))
    root = _xstart(NOE, 0, [_xattr(1 + n, 0, NOE, 0x10, 1)]) + _xend(NOE, 0)
    nsarr = lambda off: [{'start': off, 'stride': 24, 'count': n, 'fields': (16, 20), 'count_at': None, 'pool': len(strs)}]
    if full or n <= 5000:
        data, off = _xdoc(strs, sns + root + ens, utf8=True)
        add(_w('axml', 'ns:distinct', n, data, nsarr(off)))
    data, off = _xdoc(strs, _xns(0x0100, 1, 1 + n) * n + root + _xns(0x0101, 1, 1 + n) * n, utf8=True)
    add(_w('axml', 'ns:equal', n, data, nsarr(off)))
    if full:
        data, off = _xdoc(strs, sns + root, utf8=True)
        add(_w('axml', 'ns:unclosed', n, data, nsarr(off)))
        data, off = _xdoc(strs, root + ens, utf8=True)
        add(_w('axml', 'ns:ends-only', n, data, nsarr(off + len(root))))
    # nesting depth n (RecursionError is an allowed outcome), without and with one namespace declaration per level
    data, off = _xdoc(['e'], _xstart(NOE, 0) * n + _xend(NOE, 0) * n)
    add(_w('axml', 'nested', n, data, [{'start': off, 'stride': 36, 'count': n, 'fields': (16, 20), 'count_at': None,
                                               'pool': 1}]))
    if n <= (2500 if full else 1200):
        # one namespace declaration per level: AXMLPrinter hands the whole mapping in scope to every lxml element, whose
        # cost grows with depth x mappings (measured on the unchanged tree: ~n^3 - 5 s at 1 200, 9 min at 5 000 levels,
        # still inside 2 ms/byte there), so only the small counts are affordable
        lvl = [_xns(0x0100, 1 + i, 1 + n + i) + _xstart(NOE, 0) for i in range(n)]
        unl = [_xend(NOE, 0) + _xns(0x0101, 1 + i, 1 + n + i) for i in reversed(range(n))]
        data, off = _xdoc(strs, b''.join(lvl) + b''.join(unl), utf8=True)
        add(_w('axml', 'nested+ns', n, data, [{'start': off, 'stride': 60, 'count': n, 'fields': (16, 20, 44),
                                                      'count_at': None, 'pool': len(strs)}]))
    # n resource ids / n pool strings / n chunks that are skipped
    data, off = _xdoc(['a', 'e'], _xstart(NOE, 1, [_xattr(NOE, 0, NOE, 0x10, 1)]) + _xend(NOE, 1),
                      resmap=[0x01010000 + i for i in range(n)])
    add(_w('axml', 'resmap-entries', n, data, [{'start': off - 4 * n, 'stride': 4, 'count': n, 'fields': (0,),
                                                       'count_at': None, 'pool': 2}]))
    for utf8 in ((True, False) if full else (True,)):
        data, off = _xdoc(['e'] + ['s%d' % i for i in range(n)], _xstart(NOE, 0) + _xend(NOE, 0), utf8=utf8)
        add(_w('axml', 'pool-strings:' + ('utf8' if utf8 else 'utf16'), n, data, [
            {'start': 8 + 28, 'stride': 4, 'count': n + 1, 'fields': (0,), 'count_at': (16, 4), 'pool': n + 1}]))
    junk = struct.pack('<HHI', 0x0777, 8, 8)
    data, off = _xdoc(['e'], junk * n + _xstart(NOE, 0) + _xend(NOE, 0))
    add(_w('axml', 'skipped-chunks', n, data, [{'start': off, 'stride': 8, 'count': n, 'fields': (4,), 'count_at': None,
                                                       'pool': 1}]))
    if full:
        rm0 = struct.pack('<HHII', 0x0180, 8, 12, 0x01010003)
        data, off = _xdoc(['e'], rm0 * n + _xstart(NOE, 0) + _xend(NOE, 0))
        add(_w('axml', 'resmap-chunks', n, data, [{'start': off, 'stride': 12, 'count': n, 'fields': (4, 8),
                                                          'count_at': None, 'pool': 1}]))
    return out


def _arsc_arrays(data, layout, n):
    """the offset and entry arrays of the largest type chunk / the chunk sequence when there are >= n type chunks"""
    arr = []
    types = [(off, size) for (off, size, kind) in layout if _u16(data, off) == 0x0201]
    if types:
        off, size = max(types, key=lambda x: x[1])
        hs, ec, es = _u16(data, off + 2), _u32(data, off + 12), _u32(data, off + 16)
        if ec and ec >= n // 2:
            arr.append({'start': off + hs, 'stride': 4, 'count': ec, 'fields': (0,), 'count_at': (off + 12, 4), 'pool': ec})
            arr.append({'start': off + es, 'stride': 16, 'count': (size - es) // 16, 'fields': (4, 12, 0, 8),
                        'count_at': (off + 12, 4), 'pool': ec})
        if len(types) >= n // 2 and len({sz for _, sz in types}) == 1:
            arr.append({'start': types[0][0], 'stride': types[0][1], 'count': len(types), 'fields': (4, 12, 16, 8),
                        'count_at': None, 'pool': len(types)})
    specs = [(off, size) for (off, size, kind) in layout if _u16(data, off) == 0x0202]
    if specs:
        off, size = max(specs, key=lambda x: x[1])
        if (size - 16) // 4 >= n // 2:
            arr.append({'start': off + 16, 'stride': 4, 'count': (size - 16) // 4, 'fields': (0,), 'count_at': (off + 12, 4),
                        'pool': n})
    return arr


def wide_arsc(n, full=True, only=None):
    from vf.gen import arscgen as R
    out = []
    d = R.make_config()

    def tab(types, **kw):
        t = {'utf8': True, 'pool_extra': [], 'packages': [{'id': 0x7f, 'name': 'w', 'types': types}]}
        t.update(kw)
        return t

    def add(shape, table, m=n):
        if only is not None and shape not in only:
            return
        lay = []
        try:
            data = R.build(table, layout=lay)
        except (ValueError, struct.error, OverflowError):
            return                        # the writer cannot express this size (16-bit offsets ...)
        out.append(_w('arsc', shape, m, data, _arsc_arrays(data, lay, m)))

    def plain(i, v=None):
        return {'kind': 'plain', 'key': 'k%d' % i, 'value': v or [R.TYPE_INT_DEC, i]}
    for offs in (('32', '16', 'sparse') if full else ('32', 'sparse')):
        if offs != '32' and n > 5000:
            continue
        add('entries:' + offs, tab([{'name': 'integer', 'entry_count': n, 'chunks': [
            {'config': d, 'offsets': offs, 'entries': [[i, plain(i)] for i in range(n)]}]}]))
    add('entries:strings', tab([{'name': 'string', 'entry_count': n, 'chunks': [
        {'config': d, 'offsets': '32', 'entries': [[i, plain(i, [R.TYPE_STRING, 'v%d' % i])] for i in range(n)]}]}]))
    add('entries:one-key', tab([{'name': 'integer', 'entry_count': n, 'chunks': [
        {'config': d, 'offsets': '32', 'entries': [[i, {'kind': 'compact', 'key': 'k', 'value': [R.TYPE_INT_DEC, i & 0xffff]}]
                                                   for i in range(n)]}]}]))
    add('entries:complex', tab([{'name': 'array', 'entry_count': n, 'chunks': [
        {'config': d, 'offsets': '32', 'entries': [[i, {'kind': 'complex', 'key': 'k%d' % i, 'parent': 0, 'items': [
            [0x02000000, [R.TYPE_INT_DEC, i]], [0x02000001, [R.TYPE_INT_DEC, 1]]]}] for i in range(n)]}]}]))
    add('bag-items', tab([{'name': 'array', 'entry_count': 1, 'chunks': [
        {'config': d, 'offsets': '32', 'entries': [[0, {'kind': 'complex', 'key': 'k', 'parent': 0, 'items': [
            [0x02000000 + i, [R.TYPE_INT_DEC, i]] for i in range(n)]}]]}]}]))
    add('entries:holes', tab([{'name': 'integer', 'entry_count': n, 'chunks': [
        {'config': d, 'offsets': '32', 'entries': [[0, plain(0)], [n - 1, plain(1)]]}]}]))
    # n configurations of one entry (n type chunks): densities / locales
    if n <= 5000:
        add('configs:density', tab([{'name': 'integer', 'entry_count': 1, 'chunks': [
            {'config': R.make_config(density=1 + i), 'offsets': '32', 'entries': [[0, plain(0)]]} for i in range(n)]}]))

        def loc(i):
            lang = chr(97 + i % 26) + chr(97 + (i // 26) % 26)
            return R.make_config(language=lang, country=(chr(65 + (i // 676) % 26) * 2 if i >= 676 else ''))
        add('configs:locale', tab([{'name': 'string', 'entry_count': 1, 'chunks': [
            {'config': loc(i), 'offsets': '32', 'entries': [[0, plain(0, [R.TYPE_STRING, 'v%d' % i])]]} for i in range(n)]}]))
    if n == 1200:
        # ResTable_typeSpec::id is one byte: 255 types is the widest package
        add('types', tab([{'name': 't%d' % i, 'entry_count': 1, 'chunks': [
            {'config': d, 'offsets': '32', 'entries': [[0, plain(i)]]}]} for i in range(255)]), 255)
    add('pool-strings', tab([{'name': 'integer', 'entry_count': 1, 'chunks': [
        {'config': d, 'offsets': '32', 'entries': [[0, plain(0)]]}]}], pool_extra=['s%d' % i for i in range(n)]))
    t = tab([{'name': 'integer', 'entry_count': 1, 'chunks': [{'config': d, 'offsets': '32', 'entries': [[0, plain(0)]]}]}])
    t['packages'][0]['keys_extra'] = ['x%d' % i for i in range(n)]
    add('key-strings', t)
    if n <= 2500:
        # a reference chain of length n (resolution is recursive: RecursionError is an allowed outcome)
        add('ref-chain', tab([{'name': 'string', 'entry_count': n, 'chunks': [{'config': d, 'offsets': '32', 'entries': [
            [i, plain(i, [R.TYPE_REFERENCE, R.resid(0x7f, 1, i + 1)] if i + 1 < n else [R.TYPE_STRING, 'end'])]
            for i in range(n)]}]}]))
    # n package chunks (the writer allows 255 distinct ids: the chunk of a one-entry package is repeated instead)
    one = R.build(tab([{'name': 'integer', 'entry_count': 1, 'chunks': [
        {'config': d, 'offsets': '32', 'entries': [[0, plain(0)]]}]}]))
    gp = _u32(one, 12 + 4)
    pk = one[12 + gp:]
    for shape, cnt in ((('packages:repeated', n), ('packages:repeated:count1', 1)) if full else (('packages:repeated', n),)):
        if n > 2500:
            break
        data = bytearray(one[:12 + gp] + pk * n)
        struct.pack_into('<II', data, 4, len(data), cnt)
        out.append(_w('arsc', shape, n, data, [{'start': 12 + gp, 'stride': len(pk), 'count': n, 'fields': (4, 8),
                                                'count_at': (8, 4), 'pool': n}]))
    return out


def _dex_arrays(data, n):
    arr = []
    for (cnt_o, off_o, isz, fields) in ((0x38, 0x3c, 4, (0,)), (0x40, 0x44, 4, (0,)), (0x48, 0x4c, 12, (0, 4, 8)),
                                        (0x50, 0x54, 8, (4, 0)), (0x58, 0x5c, 8, (4, 0)), (0x60, 0x64, 32, (0, 8, 12, 24, 28, 20))):
        cnt, off = _u32(data, cnt_o), _u32(data, off_o)
        if cnt and off and cnt >= n // 2 and off + cnt * isz <= len(data):
            arr.append({'start': off, 'stride': isz, 'count': cnt, 'fields': fields, 'count_at': (cnt_o, 4),
                        'pool': _u32(data, 0x38) or 0})
    mo = _u32(data, 0x34)
    if mo and mo + 4 <= len(data):
        cnt = _u32(data, mo)
        if cnt >= n // 2 and mo + 4 + 12 * cnt <= len(data):
            # fields: offset and type - NOT the size: n map items that all declare a large size make MapItem.parse
            # read the same section n times (n x m items for 12 n + m bytes). Measured on the unchanged tree: 2 500 items
            # with sizes 2 506 .. 0 = 3.1 M StringIdItems = 23 s of a 61 s budget; 12 000 x 36 000 ends in MemoryError
            # under the 2 GB cap after 95 s of a 289 s budget - an allowed outcome, so this is not a finding, but a
            # whole-array fill of the size field would put cases within a factor of 2-3 of their budget: kept out for
            # the margin of the oracle (single-item size edits are made by the general mutations)
            arr.append({'start': mo + 4, 'stride': 12, 'count': cnt, 'fields': (8, 0), 'count_at': (mo, 4), 'pool': len(data)})
    return arr


def wide_dex(n, full=True, only=None):
    from vf.gen import dexgen as D
    out = []
    ret = bytes([0x0e, 0x00])

    def tiny():
        return D.Class('Lw/W;', vmethods=[D.Method('m', 'V', (), 1, D.Code(1, 1, 0, ret))])

    def add(shape, classes, refs=(), **kw):
        if only is not None and shape not in only:
            return
        if not full and n > 5000 and shape not in ('strings', 'types', 'field-ids', 'classes', 'class-methods'):
            return                        # quick tier: the writer needs ~1 s per 20 000-item file
        df = D.DexFile(classes, extra_refs=list(refs))
        data = df.build(**kw)
        out.append(_w('dex', shape, n, data, _dex_arrays(data, n)))
    add('strings', [tiny()], [('s', 's%06d' % i) for i in range(n)])
    add('types', [tiny()], [('t', 'Lw/T%d;' % i) for i in range(n)])
    add('protos', [tiny()], [('p', 'V', ('I',) * (i % 5) + ('Lw/P%d;' % i,)) for i in range(n)])
    add('field-ids', [tiny()], [('f', 'Lw/W;', 'f%d' % i, 'I') for i in range(n)])
    add('method-ids', [tiny()], [('m', 'Lw/W;', 'm%d' % i, 'V', ()) for i in range(n)])
    add('classes', [D.Class('Lw/C%d;' % i) for i in range(n)])
    add('class-fields', [D.Class('Lw/W;', sfields=[D.Field('f%d' % i, 'I', 8) for i in range(n)],
                                 static_values=[D.EV('int', i) for i in range(n)])])
    add('class-methods', [D.Class('Lw/W;', vmethods=[D.Method('m%d' % i, 'V', (), 1, D.Code(1, 1, 0, ret))
                                                      for i in range(n)])])
    add('insns', [D.Class('Lw/W;', vmethods=[D.Method('m', 'V', (), 1, D.Code(1, 1, 0, bytes(2 * n) + ret))])])
    m = min(n, 8000)                # encoded_catch_handler offsets are 16 bit
    add('tries', [D.Class('Lw/W;', vmethods=[D.Method('m', 'V', (), 1, D.Code(
        1, 1, 0, bytes(2 * m) + ret, tries=[(i, 1, i) for i in range(m)],
        handlers=[([('Ljava/lang/Exception;', m)], None) for i in range(m)]))])])
    add('interfaces', [D.Class('Lw/W;', interfaces=['Lw/I%d;' % i for i in range(n)])])
    add('annotations', [D.Class('Lw/W;', annotations=[D.Annotation('Lw/A%d;' % i, [('v', D.EV('int', i))])
                                                      for i in range(n)])])
    if full:
        add('strings:data-last', [tiny()], [('s', 's%06d' % i) for i in range(n)],
            section_order=['type_list', 'code', 'annotation_item', 'annotation_set', 'annotations_directory', 'encoded_array',
                           'class_data', 'map', 'string_data'])
        add('params', [D.Class('Lw/W;', vmethods=[D.Method('m', 'V', ('I',) * n, 0x401)])])
        add('annotation-elements', [D.Class('Lw/W;', annotations=[D.Annotation('Lw/A;', [
            ('e%d' % i, D.EV('int', i)) for i in range(n)])])])
        add('array-value', [D.Class('Lw/W;', sfields=[D.Field('a', '[I', 8)],
                                    static_values=[D.EV('array', [D.EV('int', i) for i in range(n)])])])
    # n more map items (the writer emits one per section): the header item / the first string_id_item again and again
    base = D.DexFile([tiny()]).build()
    mo = _u32(base, 0x34)
    cnt = _u32(base, mo)
    if mo + 4 + 12 * cnt == len(base):
        for shape, item in (('map-items:header', struct.pack('<HHII', 0, 0, 1, 0)),
                            ('map-items:string-id', struct.pack('<HHII', 1, 0, 1, _u32(base, 0x3c)))):
            if only is not None and shape not in only:
                continue
            b = bytearray(base) + item * n
            struct.pack_into('<I', b, mo, cnt + n)
            struct.pack_into('<I', b, 0x20, len(b))
            struct.pack_into('<I', b, 0x68, _u32(b, 0x68) + 12 * n)
            data = bytes(fix_dex(b))
            out.append(_w('dex', shape, n, data, _dex_arrays(data, n)))
    return out


def _wide_signer(v3, digests=1, certs=0, sigs=1, attrs=0, cert=b''):
    s = {'digests': [[0x0103, bytes(32)] for _ in range(digests)], 'certs': [cert] * certs,
         'attrs': [[0xbeeff00d, struct.pack('<I', 3)] for _ in range(attrs)],
         'sigs': [[0x0103, b'\x01' * 8] for _ in range(sigs)], 'pubkey': b'\x30\x00'}
    if v3:
        s.update({'sd_min': 24, 'sd_max': 0x7fffffff, 'min': 24, 'max': 0x7fffffff})
    return s


def wide_apk(n, full=True, only=None):
    from vf.gen import zipgen as Z, sigblock as S, axmlgen as A
    out = []

    def add(shape, data, arrays=()):
        out.append(_w('apk', shape, n, data, arrays))
    small = Z.build_apk([('classes.dex', _warm_files()[0][1], Z.DEFLATED)])
    if n <= 5000 or full:
        add('members', Z.build_apk([('res/f%05d' % i, b'x', Z.STORED) for i in range(n)]))
    if n <= (2500 if full else 1200):
        add('members:meta-inf', Z.build_apk([('META-INF/S%d.RSA' % i, b'\x30\x00', Z.STORED) for i in range(n)] +
                                            [('META-INF/MANIFEST.MF', b'Manifest-Version: 1.0\r\n\r\n', Z.STORED)]))
        add('members:dex', Z.build_apk([('classes%d.dex' % (i + 2), b'dex\n035\0', Z.STORED) for i in range(n)] +
                                       [('classes.dex', _warm_files()[0][1], Z.STORED)]))

    big = full or n <= 5000          # quick tier at 20 000: three signing-block shapes only (the writers need seconds)

    def signed(shape, pairs):
        if not big and shape not in ('pairs', 'signers:v2', 'digests:v2'):
            return
        pairs = pairs()
        data = S.sign_zip(small, pairs)
        blk = S.find_signing_block(data)
        add('sig:' + shape, data, [{'start': blk['start'] + 8, 'stride': 12, 'count': n, 'fields': (8, 0, 4), 'count_at': None,
                                    'pool': n}] if shape.startswith('pairs') else ())
    v2 = {'id': S.V2_ID, 'signers': [_wide_signer(False)]}
    signed('pairs', lambda: [{'id': 0x10000 + i, 'value': b''} for i in range(n)] + [v2])
    signed('pairs:equal-id', lambda: [{'id': 0x504b4453, 'value': b''} for i in range(n)] + [v2])
    for v3, pid in ((False, S.V2_ID), (True, S.V3_ID)) if full else ((False, S.V2_ID),):
        nm = 'v3' if v3 else 'v2'
        signed('signers:' + nm, lambda: [{'id': pid, 'signers': [_wide_signer(v3) for _ in range(n)]}])
        signed('digests:' + nm, lambda: [{'id': pid, 'signers': [_wide_signer(v3, digests=n)]}])
        signed('signatures:' + nm, lambda: [{'id': pid, 'signers': [_wide_signer(v3, sigs=n)]}])
        signed('attributes:' + nm, lambda: [{'id': pid, 'signers': [_wide_signer(v3, attrs=n)]}])
    if n <= 2500:
        cert = S.load_fixtures()['ecp256']['cert']
        signed('certificates:v2', lambda: [{'id': S.V2_ID, 'signers': [_wide_signer(False, certs=n, cert=cert)]}])
        if full:
            signed('certificates:v3', lambda: [{'id': S.V3_ID, 'signers': [_wide_signer(True, certs=n, cert=cert)]}])
    # manifests with n permissions / n components (valid documents: the manifest queries walk them)
    perms = [A.E('uses-permission', attrs=[A.a_str('name', 'android.permission.P%d' % i, with_resid=True)])
             for i in range(n if big else 0)]
    if big:
        add('manifest:permissions', Z.build_apk([(Z.MANIFEST_NAME, A.build_axml(A.manifest_root(
            'com.example.wide', children=perms + [A.E('application')])), Z.STORED)]))
    acts = [A.E('activity', attrs=[A.a_str('name', '.A%d' % i, with_resid=True)], children=[A.E('intent-filter', children=[
        A.E('action', attrs=[A.a_str('name', 'android.intent.action.MAIN', with_resid=True)]),
        A.E('category', attrs=[A.a_str('name', 'android.intent.category.LAUNCHER', with_resid=True)])])])
        for i in range(n if n <= 5000 else 0)]
    if n <= 5000:
        add('manifest:activities', Z.build_apk([(Z.MANIFEST_NAME, A.build_axml(A.manifest_root('com.example.wide', children=[
            A.E('application', children=acts)])), Z.STORED)]))
    return out


WIDE_BUILDERS = {'axml': wide_axml, 'arsc': wide_arsc, 'dex': wide_dex, 'apk': wide_apk}
# shapes of the inner formats that are also delivered through the APK front door
WIDE_INNER = {'axml': ('attrs:name-noentry', 'attrs:name-oob', 'attrs:name-valid', 'children', 'ns:distinct', 'nested'),
              'arsc': ('entries:32', 'configs:locale', 'bag-items'), 'dex': ('classes', 'strings')}


def wide_seeds(fmt, tier, sizes=None):
    """smallest counts first (a shape that times out is not tried at larger counts, see _run_wide)"""
    full = tier != 'quick'
    out = []
    for n in (sizes or WIDE_N):
        ws = WIDE_BUILDERS[fmt](n, full)
        if fmt == 'apk':
            for f, shapes in sorted(WIDE_INNER.items()):
                if n > 5000 and not full:
                    continue
                for s in WIDE_BUILDERS[f](n, False, only=shapes):
                    if s['shape'] in shapes:
                        ws.append(_w('apk', 'inner-%s:%s' % (f, s['shape']), n, inner_apk(f, s['data'], stored=True)))
        out += sorted(ws, key=lambda s: len(s['data']))
    return out


def wide_labels(target, flags):
    """measured, not assumed: the counts the parsers' own loops saw (spies in the sandbox child)"""
    lab = []
    for key, name, steps in (('x.maxattrs', 'axml:wide:attrs', (1138, 5000, 20000)), ('x.tags', 'axml:wide:elements', (1000, 5000, 20000)),
                             ('x.maxdepth', 'axml:wide:depth', (1000, 5000, 20000)), ('x.maxns', 'axml:wide:namespaces', (1000, 5000, 20000)),
                             ('x.events', 'axml:wide:events', (1000, 5000, 20000)),
                             ('pool.strings', 'res:wide:pool-strings', (1000, 5000, 20000)),
                             ('r.bagitems', 'arsc:wide:bag-items', (1000, 5000, 20000)),
                             ('r.entries', 'arsc:wide:entries', (1000, 5000, 20000)), ('r.types', 'arsc:wide:type-chunks', (1000, 5000)),
                             ('r.specs', 'arsc:wide:typespecs', (255, 1000)), ('r.packages', 'arsc:wide:packages', (255, 1000, 5000)),
                             ('dex.mapitems', 'dex:wide:map-items', (1000, 5000, 20000)), ('dex.strings', 'dex:wide:strings', (1000, 5000, 20000)),
                             ('dex.classes', 'dex:wide:classes', (1000, 5000, 20000)), ('dex.emethods', 'dex:wide:encoded-methods', (1000, 5000, 20000)),
                             ('apk.files', 'apk:wide:members', (1000, 5000, 20000)), ('apk.pairs', 'apk:wide:signing-block-pairs', (1000, 5000, 20000)),
                             ('apk.signers', 'apk:wide:signers', (1000, 5000, 20000)),
                             ('apk.records', 'apk:wide:digests-or-signatures', (1000, 5000, 20000))):
        v = flags.get(key, 0)
        for s_ in steps:
            if v >= s_:
                lab.append('%s>=%d' % (name, s_))
    return lab


WIDE_FILL = ['noentry', 'zero', 'oob-distinct', 'oob-equal', 'identity', 'reverse', 'huge', 'first-valid', 'last-valid']


def wide_mutate(seed, kind, a, b_, c, post):
    """one wide mutation (the wide structure stays wide): a field of every item / of a run of items rewritten with an
    absent / out-of-pool / constant / permuted index, the declared count off by one / doubled / at the type's maximum
    with the bytes unchanged, the input cut inside the array at / around item 1138 and in the middle, or one of the
    general mutations (OPS) on top. -> (bytes, labels)"""
    fmt = seed['fmt']
    buf = bytearray(seed['data'])
    arrs = seed['arrays']
    labels = []
    k = kind % 5
    cut = False
    if not arrs or k == 4:
        pts = seed.get('pts')
        if pts is None:
            pts = seed['pts'] = SCAN[fmt](seed['data'])
        buf, lab = apply_op(fmt, buf, pts, (a % len(OPS), b_, (b_ >> 7) ^ a, c))
        labels.append('wide-op:general:' + lab)
        cut = len(buf) != len(seed['data'])
    else:
        ar = arrs[a % len(arrs)]
        start, stride, count = ar['start'], ar['stride'], ar['count']
        if k == 3 and not ar.get('count_at'):
            k = 0
        if k in (0, 1):
            fo = ar['fields'][0] if k == 0 else ar['fields'][(b_ >> 4) % len(ar['fields'])]
            mode = WIDE_FILL[(b_ >> 8) % len(WIDE_FILL)]
            sel = c % 4
            first = (a >> 8) % count if sel in (1, 3) else 0
            last = min(count, first + 1138 + (a >> 20) % 64) if sel == 3 else count
            pool = ar.get('pool', count)
            for i in range(first, last, 2 if sel == 2 else 1):
                v = {'noentry': NOE, 'zero': 0, 'oob-distinct': pool + i, 'oob-equal': pool + 7, 'identity': i,
                     'reverse': count - 1 - i, 'huge': 0x7fffffff - i, 'first-valid': 1, 'last-valid': max(0, pool - 1)}[mode]
                p = start + i * stride + fo
                if p + 4 <= len(buf):
                    struct.pack_into('<I', buf, p, v & 0xffffffff)
            labels.append('wide-op:fill:' + mode)
        elif k == 2:
            ks = [1137, 1138, 1139, count // 2, count - 1, count - 2, (a >> 8)]
            item = ks[b_ % len(ks)] % max(1, count)
            buf = buf[:max(1, start + item * stride + (0, 4, stride - 1, 1)[c % 4])]
            labels.append('wide-op:cut-inside')
            cut = True
        else:
            off, w = ar['count_at']
            top = (1 << (8 * w)) - 1
            vals = [count + 1, count * 2, count - 1, count // 2, 1138, 1137, top, top // 2 + 1, count + 1138, 0]
            v = vals[b_ % len(vals)] & top
            if off + w <= len(buf):
                buf[off:off + w] = v.to_bytes(w, 'little')
            labels.append('wide-op:declared-count')
    if fmt == 'dex':
        if post < 85:
            buf = fix_dex(buf)
            labels.append('dex:checksums-fixed')
        else:
            labels.append('dex:checksums-stale')
    elif fmt in ('axml', 'arsc') and len(buf) >= 8 and (cut and post < 75):
        struct.pack_into('<I', buf, 4, len(buf))
        labels.append('res:outer-size-fixed')
    return bytes(buf), labels


# =====================================================================================================
# shards
# =====================================================================================================
_op = st.tuples(st.integers(0, len(OPS) - 1), st.integers(0, 0xffffffff), st.integers(0, 0xffffffff),
                st.integers(0, 0xffff))


def case_strategy(nseeds):
    return st.tuples(st.integers(0, nseeds - 1), st.lists(_op, min_size=1, max_size=3), st.integers(0, 99),
                     st.integers(0, 9))


# tail-chunk combinations: systematic on minimal documents / the smallest seeds, drawn on every seed. Short shards at
# the end of the list: they are picked up by the workers that finish first (runner: chunksize 1)
TAIL_SHARDS = [('tail', 'axml', 'sys'), ('tail', 'arsc', 'sys'), ('tail', 'axml', 'hyp'), ('tail', 'arsc', 'hyp'),
               ('tail', 'dex', 'sys')]


# wide seeds (one structure with thousands of items): one shard per format, seeds built inside the worker
WIDE_SHARDS = [('wide', 'axml'), ('wide', 'apk'), ('wide', 'arsc'), ('wide', 'dex')]


def shards(tier, seed):
    # seeds are built here, in the parent: the pool workers (fork) inherit the cache
    for f in ('dex', 'axml', 'arsc', 'apk'):
        build_seeds(f, seed, tier)
    # ... and so are the lazy imports of the parsers' dependencies (valid files only are parsed here)
    if os.getpid() not in _PARENT_WARM:
        _warmup()
        _PARENT_WARM.add(os.getpid())
    if tier == 'quick':
        # 25 shards for 16 workers, longest first: the eleven 55 s shards, the four wide shards (40 s) and one short tail
        # shard start at once; the other tail shards and the shards that take 10-25 s (sys dex / axml, hyp apk) are picked
        # up by the workers that finish first
        sh = [('hyp', 'arsc', k) for k in range(3)] + [('sys', 'arsc')] + [('hyp', 'axml', k) for k in range(2)] + \
             [('hyp', 'dex', k) for k in range(4)] + [('sys', 'apk')] + WIDE_SHARDS + TAIL_SHARDS + \
             [('sys', 'dex')] + [('hyp', 'apk', k) for k in range(3)] + [('sys', 'axml')]
    else:
        sh = [('hyp', 'dex', k) for k in range(10)] + [('hyp', 'axml', k) for k in range(5)] + \
             [('hyp', 'arsc', k) for k in range(6)] + [('hyp', 'apk', k) for k in range(7)] + \
             [('sys', f) for f in ('dex', 'axml', 'arsc', 'apk')] + TAIL_SHARDS + WIDE_SHARDS + \
             [('atheris', f, c) for f in ('dex', 'axml', 'arsc', 'apk') for c in ('seeded', 'empty')]
    only = os.environ.get('C35_ONLY')            # development aid: restrict to the shards of one format / kind
    if only:
        sh = [x for x in sh if only in x]
    return sh


def _cap(tier):
    """wall-clock cap per shard (bounds how much is explored, never a verdict); C35_CAP_S overrides (development)"""
    try:
        return float(os.environ['C35_CAP_S'])
    except (KeyError, ValueError):
        return 55.0 if tier == 'quick' else 240.0


def _over_budget(ctx, cap):
    t0 = ctx.__dict__.get('_c35_t0')
    el = ctx.elapsed() if t0 is None else time.time() - t0
    return el > cap or ctx.__dict__.get('_c35_cpu_spent', 0.0) > cap * 2.5


def run_shard(ctx, shard):
    kind = shard[0]
    try:
        if kind == 'hyp':
            _run_hyp(ctx, shard[1], shard[2])
        elif kind == 'sys':
            _run_sys(ctx, shard[1])
        elif kind == 'atheris':
            _run_atheris(ctx, shard[1], shard[2])
        elif kind == 'tail':
            _run_tail(ctx, shard[1], shard[2])
        elif kind == 'wide':
            _run_wide(ctx, shard[1])
        else:
            raise HarnessError('unknown shard %r' % (shard,))
    finally:
        ctx.count('shard_wall_s:' + ':'.join(str(x) for x in shard), int(ctx.elapsed()))
        ctx.count('shard_cases:' + ':'.join(str(x) for x in shard), ctx.evaluations)
        for sb in list(_SB.values()):
            sb.close()
        _SB.clear()


def _run_hyp(ctx, fmt, k):
    seeds = build_seeds(fmt, ctx.seed, ctx.tier)
    ctx.count('seeds:' + fmt, len(seeds) if k == 0 else 0)
    cap = _cap(ctx.tier)
    n = {'dex': 1500, 'axml': 2500, 'arsc': 1500, 'apk': 600}[fmt] * (1 if ctx.tier == 'quick' else 8)

    def fn(c, v):
        si, ops, post, route = v
        if _over_budget(ctx, cap):
            c.count('budget_skipped')
            return
        seed = seeds[si]
        data, labels = mutate(seed, ops, post)
        target = fmt
        if fmt != 'apk' and route == 0:
            # a share of the inner-format mutants is also delivered through the APK front door
            try:
                data = inner_apk(fmt, data)
                target = 'apk'
                labels.append('apk:inner-' + fmt)
            except Exception:
                c.count('inner_apk_not_packable')
        evaluate(c, target, data, labels=labels + ['seed:' + ('generated' if seed['name'].startswith(('gen', 'simple', 'zipgen'))
                                                              else 'shipped')],
                 origin={'seed': seed['name'], 'ops': [list(o) for o in ops], 'post': post})
    # batches: a budget cut costs at most one batch of skipped examples
    batch = 125
    sandbox().run(fmt, seeds[0]['data'], budget_for(len(seeds[0]['data'])))
    ctx.__dict__['_c35_t0'] = time.time()   # the shard's clock starts when seeds and sandbox are ready
    for b in range((n + batch - 1) // batch):
        if _over_budget(ctx, cap):
            ctx.count('hyp_batches_not_run')
            continue
        hyp_collect(ctx, case_strategy(len(seeds)), fn, batch, salt=hash_salt(fmt, k) * 1000 + b, shrink=False)


def hash_salt(fmt, k):
    return {'dex': 100, 'axml': 200, 'arsc': 300, 'apk': 400}[fmt] + k


def _run_sys(ctx, fmt):
    """systematic part: unmodified seeds, every boundary, every field x special values, chunk sizes; round-robin over
    the smallest seeds so that a budget cut still leaves broad coverage"""
    seeds = build_seeds(fmt, ctx.seed, ctx.tier)
    cap = _cap(ctx.tier)
    sandbox().run(fmt, seeds[0]['data'], budget_for(len(seeds[0]['data'])))
    ctx.__dict__['_c35_t0'] = time.time()
    for s in seeds:
        evaluate(ctx, fmt, s['data'], labels=['sys:unmodified'], origin={'seed': s['name'], 'ops': 'none'})
    small = seeds[:10 if ctx.tier == 'quick' else 24]
    for s in seeds[len(small):]:
        # unterminated strings of boundary lengths at EOF: on every seed that ends with its string data
        if fmt == 'dex' and len(s['data']) <= 65536:
            for lab, data in _sys_tail_cases(s):
                if _over_budget(ctx, cap):
                    break
                evaluate(ctx, fmt, data, labels=['sys:' + lab], origin={'seed': s['name'], 'ops': lab})
    gens = [_sys_cases(s) for s in small]
    alive = list(range(len(gens)))
    while alive and not _over_budget(ctx, cap):
        for gi in list(alive):
            try:
                lab, data = next(gens[gi])
            except StopIteration:
                alive.remove(gi)
                continue
            evaluate(ctx, fmt, data, labels=['sys:' + lab], origin={'seed': small[gi]['name'], 'ops': lab})
    if alive:
        ctx.count('sys_budget_cut_seeds', len(alive))


def _sys_cases(seed):
    fmt, data, pts = seed['fmt'], seed['data'], seed['pts']
    fix = (lambda b: bytes(fix_dex(b))) if fmt == 'dex' else (lambda b: bytes(b))

    def outer(b):
        if fmt in ('axml', 'arsc') and len(b) >= 8:
            b = bytearray(b)
            struct.pack_into('<I', b, 4, len(b))
        return bytes(b)
    if pts.get('laststr'):
        start, nul = pts['laststr']
        yield 'strip-last-nul', fix(data[:nul])
        yield 'strip-last-nul', fix(data[:max(start + 1, nul - 1)])
    yield from _sys_tail_cases(seed)
    for (so, p, e) in pts.get('strnuls', ()):
        b = bytearray(data)
        b[e] = 0x41
        yield 'strip-nul-k', fix(b)
        b[e:] = bytes(b[e:]).replace(b'\0', b'\x41')
        yield 'strip-nul-k+fill-to-eof', fix(b)
    for (off, t, hs, sz) in pts['chunks']:
        for v in (0, 4, 7, 8, max(0, hs - 1)):
            b = bytearray(data)
            struct.pack_into('<I', b, off + 4, v)
            yield 'chunk-size-small', bytes(b)
        b = bytearray(data)
        struct.pack_into('<H', b, off + 2, 0)
        yield 'chunk-hsize-0', bytes(b)
        b = bytearray(data)
        struct.pack_into('<HI', b, off + 2, 0, 0)
        yield 'chunk-sizes-0', bytes(b)
    for cut in pts['bounds']:
        yield 'trunc-boundary', fix(data[:cut])
        if fmt in ('axml', 'arsc'):
            yield 'trunc-boundary+outer', outer(data[:cut])
    for pos in pts['u32']:
        for sel in (0, 1, 2, 11, 14):
            b = bytearray(data)
            struct.pack_into('<I', b, pos, special32(b, pos, sel))
            yield 'field32-huge', fix(b)
    for pos in pts['uleb']:
        for v in HUGE_ULEB[:3]:
            b = bytearray(data)
            b[pos:pos + len(v)] = v
            yield 'uleb-huge', fix(b[:max(len(data), pos + len(v))])
    for pos in pts['u16']:
        for v in (0, 0xffff):
            b = bytearray(data)
            struct.pack_into('<H', b, pos, v)
            yield 'field16', fix(b)


def _sys_tail_cases(seed):
    """DEX seeds whose last byte is the terminator of the last string: that string without terminator and extended to
    every boundary length (file_size and checksums consistent); every format: a non-NUL tail of every boundary length"""
    fmt, data, pts = seed['fmt'], seed['data'], seed['pts']
    ls = pts.get('laststr')
    if fmt == 'dex' and ls and ls[1] == len(data) - 1:
        _, p = _read_uleb(data, ls[0])
        have = len(data) - 1 - p
        for T in TAIL_LENGTHS:
            if T >= have:
                b = bytearray(data[:-1]) + b'\x41' * (T - have)
                struct.pack_into('<I', b, 0x20, len(b))
                yield 'unterminated-tail', bytes(fix_dex(b))
    elif fmt != 'dex':
        for T in TAIL_LENGTHS[2::3]:
            b = bytearray(data) + b'\x41' * T
            if fmt == 'apk':
                eo = b.rfind(b'PK\x05\x06')
                if eo >= 0 and eo + 22 <= len(b):
                    struct.pack_into('<H', b, eo + 20, min(0xffff, len(b) - eo - 22))
            else:
                struct.pack_into('<I', b, 4, len(b))
            yield 'tail', bytes(b)


# -----------------------------------------------------------------------------------------------------
# tail-chunk combinations
# -----------------------------------------------------------------------------------------------------
def minimal_docs(fmt):
    """[(name, bytes, virtual tail chunk (type, header size))]: the smallest documents that bring a walker to each of
    its states - AXML: string pool only; + one start/end element; + resource map; + namespace; + text. ARSC: table
    header + pool; + one package (type / key pools) + typeSpec + type (one entry); two types."""
    from vf.gen import axmlgen as A, arscgen as R
    if fmt == 'axml':
        def doc(*chunks):
            body = b''.join(chunks)
            return struct.pack('<HHI', 0x0003, 8, 8 + len(body)) + body
        out = [('min:pool-empty', doc(A.string_pool([], utf8=True))),
               ('min:pool', doc(A.string_pool(['a', 'b'], utf8=False))),
               ('min:element', A.build_axml(A.E('a'))),
               ('min:element+resmap', A.build_axml(A.E('a', attrs=[A.a_int('versionCode', 1, with_resid=True)]),
                                                   utf8=True)),
               ('min:element+resmap+ns+text', A.build_axml(A.E(
                   'a', attrs=[A.a_int('versionCode', 1, with_resid=True)], nsdecls=[('android', A.NS_ANDROID)],
                   children=[A.E('b'), 't']), utf8=True))]
        return [(n, d, (0x0101, 16)) for n, d in out]
    d = R.make_config()
    one = {'utf8': True, 'pool_extra': [], 'packages': [{'id': 0x7f, 'name': 'a', 'types': [
        {'name': 'string', 'entry_count': 1, 'chunks': [{'config': d, 'offsets': '32', 'entries': [
            [0, {'kind': 'plain', 'key': 'k', 'value': [R.TYPE_STRING, 'v']}]]}]}]}]}
    two = {'utf8': False, 'pool_extra': [], 'packages': [{'id': 0x7f, 'name': 'a', 'types': [
        {'name': 'string', 'entry_count': 1, 'chunks': [{'config': d, 'offsets': '32', 'entries': [
            [0, {'kind': 'plain', 'key': 'k', 'value': [R.TYPE_STRING, 'v']}]]}]},
        {'name': 'integer', 'entry_count': 1, 'chunks': [{'config': d, 'offsets': '16', 'entries': [
            [0, {'kind': 'compact', 'key': 'n', 'value': [R.TYPE_INT_DEC, 7]}]]}]}]}]}
    pool = R.string_pool(['v'], utf8=True)
    out = [('min:table+pool', struct.pack('<HHII', 0x0002, 12, 12 + len(pool), 0) + pool),
           ('min:table+package', R.build(one)), ('min:table+package2', R.build(two))]
    return [(n, d_, (0x0203, 12)) for n, d_ in out]


def _tail_plan(hs, t, level):
    """the (size, header size, type, rest) combinations enumerated for one chunk position. level 0 (minimal documents):
    E1 every small size x every rest, type kept / moved to the other class (XML node type <-> other); E2 every altered
    header size x the sizes below / at the minimum and at the header x the rests around the end of the header; E3 every
    chunk type x sizes 0 / 7 / 8 x header sizes kept / 8 / 16 / 28 x rests at 4-byte steps after the header.
    level 1 (small seeds): a cross-section of the same."""
    flip = 0x0777 if 0x0100 <= t <= 0x017f else 0x0105
    if level == 0:
        for size in tail_sizes(hs):
            for rest in tail_rests(hs):
                for ctype in ((None, flip) if size in (0, 4, 7, 8) else (None,)):
                    yield size, None, ctype, rest
        for hsize in TAIL_HSIZES[1:]:
            hsn = hsize if 8 <= hsize <= 0x40 else hs
            sizes = [0, 4, 7, 8] + [v for v in (hsn - 1, hsn) if v > 8]
            rests = sorted({r for r in [0, 4, 8, 12] + [hsn + d_ for d_ in (-1, 0, 1, 4, 7, 8, 9, 12, 16)] if r >= 0})
            for size in sizes:
                for rest in rests:
                    yield size, hsize, None, rest
        for ctype in TAIL_TYPES[1:]:
            for hsize in ((None, 8, 16, 0x1c) if ctype == 0x0001 else (None, 8, 16)):
                hsn = hs if hsize is None else hsize
                for size in (0, 7, 8):
                    for d_ in (0, 4, 8, 12, 16):
                        yield size, hsize, ctype, hsn + d_
    else:
        for size in (0, 4, 7, 8, hs):
            for d_ in (0, 4, 7, 8, 9, 12, 16):
                for ctype in (None, flip):
                    yield size, None, ctype, hs + d_
        for k, ctype in enumerate(TAIL_TYPES[1:]):
            hsize = (None, 8, 16, 0x1c)[k % 4]
            hsn = hs if hsize is None else hsize
            for size in (0, 7):
                for d_ in (4, 8, 12):
                    yield size, hsize, ctype, hsn + d_


def _tail_cases(fmt, name, data, virt, level):
    """-> iterator of (labels, bytes, chunk offset, origin ops) for every chunk position of one document; positions
    are interleaved so that a budget cut leaves every position covered"""
    chunks = []
    walk_chunks(data, 0, len(data), chunks)
    declared = _u32(data, 4) or 0

    def one(k, off, t, hs):
        i = 0
        for (size, hsize, ctype, rest) in _tail_plan(hs, t, level):
            i += 1
            outers = [2]
            # enclosing sizes as they are: always when the input is not shorter than the root chunk declares (shorter:
            # refused at the first header, a class the truncation cases cover) - otherwise for every fourth case
            if off + rest >= declared or i % 4 == 0:
                outers.append(0)
            if fmt == 'arsc' and i % 3 == 0:
                outers.append(1)
            for outer in outers:
                b, _ = tail_combo(data, chunks, k, size, hsize, ctype, rest, outer, pad=0xff if i & 1 else 0, virt=virt)
                yield (tail_labels_res(fmt, off, size, hsize, ctype, hs, t, rest, outer), b, off,
                       'tail-combo k=%d size=%d hsize=%r type=%r rest=%d outer=%d' % (k, size, hsize, ctype, rest, outer))
    gens = [one(k, off, t, hs) for (k, off, t, hs, sz) in tail_positions(data, chunks, virt)]
    while gens:
        for g in list(gens):
            try:
                yield next(g)
            except StopIteration:
                gens.remove(g)


def _tail_eval(ctx, fmt, batch, base):
    """batch = [(data, labels, chunk offset, origin)]; every 48th case also goes through the APK front door"""
    ress = evaluate_many(ctx, fmt, [(d, ['sys:tail-chunk-combo'] + lab, org) for (d, lab, off, org) in batch])
    for (d, lab, off, org), res in zip(batch, ress):
        if nontrivial(fmt, res.get('flags', {})):
            ctx.label('tail-chunk-combo:reached')
        if off in (res.get('flags', {}).get('hdr_offs') or ()):
            # measurement: a chunk walker (or the pool / table header reader) read a header at the offset of the tail chunk
            ctx.label('tail:walker-read-the-tail-header')
            if 'tail:size<8' in lab:
                ctx.label('tail:walker-read-the-tail-header:size<8')
    apk = []
    for j, (d, lab, off, org) in enumerate(batch):
        if (base + j) % 48 == 47:
            try:
                apk.append((inner_apk(fmt, d), ['sys:tail-chunk-combo', 'apk:inner-' + fmt, 'apk:tail-chunk-combo'] +
                            [l for l in lab if l.startswith('tail:')], org))
            except Exception:
                ctx.count('inner_apk_not_packable')
    if apk:
        evaluate_many(ctx, 'apk', apk)


def _tail_cap(ctx, mode):
    try:
        return float(os.environ['C35_TAIL_CAP_S'])
    except (KeyError, ValueError):
        return (20.0 if mode == 'sys' else 14.0) if ctx.tier == 'quick' else 150.0


def _run_tail(ctx, fmt, mode):
    seeds = build_seeds(fmt, ctx.seed, ctx.tier)
    cap = _tail_cap(ctx, mode)
    sandbox().run(fmt, seeds[0]['data'], budget_for(len(seeds[0]['data'])))
    ctx.__dict__['_c35_t0'] = time.time()
    if fmt == 'dex':
        _run_tail_dex(ctx, seeds, cap)
        return
    if mode == 'sys':
        docs = minimal_docs(fmt)
        # quick: the full plan on the largest minimal document (its prefixes are the smaller ones), a cross-section on
        # the others and on the smallest seeds
        docs = [(n, d, v, 0 if j == len(docs) - 1 or ctx.tier != 'quick' else 1) for j, (n, d, v) in enumerate(docs)]
        virt = docs[0][2]
        docs += [(s['name'], s['data'], virt, 1) for s in seeds[:3 if ctx.tier == 'quick' else 8]]
        for (n, d, v, lvl) in docs:
            evaluate(ctx, fmt, d, labels=['sys:unmodified'], origin={'seed': n, 'ops': 'none'})
        gens = [(n, _tail_cases(fmt, n, d, v, lvl)) for (n, d, v, lvl) in docs]
        i = 0
        while gens and not _over_budget(ctx, cap):
            batch = []
            for rnd in range(8):
                for item in list(gens):
                    try:
                        labels, data, off, ops = next(item[1])
                    except StopIteration:
                        gens.remove(item)
                        continue
                    batch.append((data, labels, off, {'seed': item[0], 'ops': ops}))
            _tail_eval(ctx, fmt, batch, i)
            i += len(batch)
        if gens:
            ctx.count('tail_sys_budget_cut_docs:' + fmt, len(gens))
        return
    # drawn: a tail combination on any seed (minimal documents included), optionally followed by one more mutation
    # (the minimal documents and the smallest seeds four times: about a third of the draws)
    docs = ([{'fmt': fmt, 'name': n, 'data': d, 'pts': SCAN[fmt](d)} for (n, d, v) in minimal_docs(fmt)] +
            list(seeds[:4])) * 3 + list(seeds)
    kind = OPS.index('tail_combo')
    strat = st.tuples(st.integers(0, len(docs) - 1), st.integers(0, 0xffffffff), st.integers(0, 0xffffffff),
                      st.integers(0, 0xffff), st.lists(_op, min_size=0, max_size=1), st.integers(0, 99),
                      st.integers(0, 19))

    def fn(c, v):
        si, a, b_, cc, more, post, route = v
        if _over_budget(ctx, cap):
            c.count('budget_skipped')
            return
        seed = docs[si]
        ops = [(kind, a, b_, cc)] + list(more)
        data, labels = mutate(seed, ops, post)
        target = fmt
        if route == 0:
            try:
                data = inner_apk(fmt, data)
                target = 'apk'
                labels += ['apk:inner-' + fmt, 'apk:tail-chunk-combo']
            except Exception:
                c.count('inner_apk_not_packable')
        res = evaluate(c, target, data, labels=labels + ['hyp:tail-chunk-combo'],
                       origin={'seed': seed['name'], 'ops': [list(o) for o in ops], 'post': post})
        if nontrivial(target, res.get('flags', {})):
            c.label('tail-chunk-combo:reached')
    batch = 125
    for b in range(200):
        if _over_budget(ctx, cap):
            break
        hyp_collect(ctx, strat, fn, batch, salt=hash_salt(fmt, 50) * 1000 + b, shrink=False)


def _run_tail_dex(ctx, seeds, cap):
    """the DEX analogue of the last chunk: the map_list (count + items with size / offset) at the end of the input"""
    picked = [s for s in seeds if s['pts'].get('map')][:4 if ctx.tier == 'quick' else 12]
    ctx.count('tail_dex_seeds', len(picked))

    def cases(s):
        data, ml = s['data'], s['pts']['map']
        i = 0
        for count in tail_map_counts(ml[1]):
            for rest in tail_map_rests(ml[1]):
                i += 1
                edits = ['none', MAP_ITEM_EDITS[1 + i % (len(MAP_ITEM_EDITS) - 1)]]
                for edit in edits:
                    for fix_size in ((1, 0) if i % 2 else (1,)):
                        yield (count, rest, edit, fix_size), tail_map_case(data, ml, count, rest, edit, fix_size)
    gens = [(s, cases(s)) for s in picked]
    while gens and not _over_budget(ctx, cap):
        for item in list(gens):
            try:
                (count, rest, edit, fix_size), b = next(item[1])
            except StopIteration:
                gens.remove(item)
                continue
            s = item[0]
            at_tail = len(s['data']) - (s['pts']['map'][0] + 4 + 12 * s['pts']['map'][1]) < 4
            evaluate(ctx, 'dex', bytes(fix_dex(b)),
                     labels=['sys:tail-map-combo', 'dex:tail-map-combo', 'dex:checksums-fixed',
                             'tail:map-' + ('last-in-file' if at_tail else 'followed-by-data'),
                             'tail:file-size-' + ('consistent' if fix_size else 'as-is')],
                     origin={'seed': s['name'], 'ops': 'tail-map count=%d rest=%d edit=%s fix=%d' % (count, rest, edit, fix_size)})
    if gens:
        ctx.count('tail_sys_budget_cut_docs:dex', len(gens))


# -----------------------------------------------------------------------------------------------------
# wide seeds
# -----------------------------------------------------------------------------------------------------
def _wide_cap(ctx):
    try:
        return float(os.environ['C35_WIDE_CAP_S'])
    except (KeyError, ValueError):
        return 40.0 if ctx.tier == 'quick' else 240.0


def _run_wide(ctx, fmt):
    """every wide seed unmodified, smallest counts first (a shape whose time-out was confirmed is not run at larger
    counts: its budget grows with the input and the finding is already recorded), and drawn wide mutations on the seeds
    up to 5 000 items: a few batches after each count, the rest of the budget at the end. The wall-clock cap bounds
    the exploration only."""
    cap = _wide_cap(ctx)
    warm = [d for t, d in _warm_files() if t == fmt][0]
    sandbox().run(fmt, warm, budget_for(len(warm)))
    ctx.__dict__['_c35_t0'] = time.time()
    timed_out = set()
    pool = []
    quick = ctx.tier == 'quick'
    pool_max = 32 * 1024 if quick else 400 * 1024
    strat = st.tuples(st.integers(0, 0xffff), st.integers(0, 4), st.integers(0, 0xffffffff), st.integers(0, 0xffffffff),
                      st.integers(0, 0xffff), st.integers(0, 99), st.integers(0, 11))
    done = [0]

    def fn(c, v):
        si, kind, a, b_, cc, post, route = v
        if _over_budget(ctx, cap):
            c.count('budget_skipped')
            return
        seed = pool[si % len(pool)]
        if seed['shape'] in timed_out:
            return
        data, labels = wide_mutate(seed, kind, a, b_, cc, post)
        target = fmt
        if fmt != 'apk' and route == 0 and len(data) <= 150 * 1024:
            try:
                data = inner_apk(fmt, data, stored=True)
                target = 'apk'
                labels.append('apk:inner-' + fmt)
            except Exception:
                c.count('inner_apk_not_packable')
        res = evaluate(c, target, data, labels=labels + ['wide', 'wide:mutated', '%s:wide-seed:%s' % (fmt, seed['shape'])],
                       origin={'seed': seed['name'], 'ops': ['wide', kind, a, b_, cc], 'post': post})
        if nontrivial(target, res.get('flags', {})):
            c.label('wide:reached')
        if wide_labels(target, res.get('flags', {})):
            c.label('wide:main-loop-saw-the-count')
        if res['outcome'] == 'timeout':
            timed_out.add(seed['shape'])

    def mutations(batches, upto):
        for _ in range(batches):
            if not pool or _over_budget(ctx, upto):
                return
            hyp_collect(ctx, strat, fn, 40, salt=hash_salt(fmt, 70) * 1000 + done[0], shrink=False)
            done[0] += 1
    for n in WIDE_N:
        if _over_budget(ctx, cap * 0.7):
            ctx.count('wide_sizes_not_built:%s:%d' % (fmt, n))
            continue
        batch = wide_seeds(fmt, ctx.tier, sizes=(n,))
        for s in batch:
            if s['shape'] in timed_out:
                ctx.count('wide_skipped_shape_already_timed_out')
                continue
            if _over_budget(ctx, cap):
                ctx.count('wide_unmodified_budget_cut:' + fmt)
                continue
            res = evaluate(ctx, fmt, s['data'], labels=['wide', 'wide:unmodified', '%s:wide-seed:%s' % (fmt, s['shape']),
                                                        'wide:n=%d' % s['n']],
                           origin={'seed': s['name'], 'ops': 'none'})
            ctx.count('wide_seeds:' + fmt)
            ctx.count('wide_seed_bytes:' + fmt, len(s['data']))
            if nontrivial(fmt, res.get('flags', {})):
                ctx.label('wide:reached')
            if wide_labels(fmt, res.get('flags', {})):
                ctx.label('wide:main-loop-saw-the-count')
            if res['outcome'] == 'timeout':
                timed_out.add(s['shape'])
            elif (n <= 5000 and len(s['data']) <= pool_max and res.get('cpu') is not None and res['cpu'] <= 1.0):
                # mutation pool: cheap seeds (the few that the unchanged parsers need seconds for stay unmodified) and,
                # in the quick tier, small ones: a time-out costs 4 x its budget of CPU (first pass + confirmation at
                # 3x) and the budget follows the length - 32 KB bound that at ~4 min per shard on a tree that hangs
                pool.append(s)
        if 1200 <= n <= 5000:
            # (the two smallest counts are run unmodified before anything else: they are cheap and must not depend on
            # how much a loaded machine gets done within the wall-clock cap)
            mutations((0, 10, 4, 2)[WIDE_N.index(n)] * (1 if quick else 6), cap * 0.8)
    mutations(60 if quick else 600, cap)
    if _over_budget(ctx, cap):
        ctx.count('wide_budget_cut:' + fmt)


# -----------------------------------------------------------------------------------------------------
# atheris (thorough only)
# -----------------------------------------------------------------------------------------------------
def _run_atheris(ctx, fmt, corpus_kind):
    import shutil
    import subprocess
    import tempfile
    try:
        import atheris  # noqa: F401
    except Exception:
        ctx.count('atheris_not_importable')
        # keep the shard non-vacuous in the evidence: run the unmodified seeds
        for s in build_seeds(fmt, ctx.seed, ctx.tier)[:5]:
            evaluate(ctx, fmt, s['data'], labels=['atheris:skipped'], origin={'seed': s['name']})
        return
    seeds = build_seeds(fmt, ctx.seed, ctx.tier)
    work = tempfile.mkdtemp(prefix='c35-atheris-')
    try:
        corpus = os.path.join(work, 'corpus')
        arts = os.path.join(work, 'artifacts')
        os.makedirs(corpus)
        os.makedirs(arts)
        if corpus_kind == 'seeded':
            for i, s in enumerate(seeds[:30]):
                if len(s['data']) <= 16384:
                    with open(os.path.join(corpus, 'seed%03d' % i), 'wb') as f:
                        f.write(s['data'])
        wall = int(os.environ.get('C35_ATHERIS_SECONDS', '150'))
        runs = int(os.environ.get('C35_ATHERIS_RUNS', '200000'))
        cmd = [sys.executable, '-c', 'import sys; from vf.checks import c35; c35._atheris_main(sys.argv[1:])',
               fmt, corpus, '-runs=%d' % runs,
               '-max_total_time=%d' % wall, '-timeout=30', '-rss_limit_mb=2560', '-max_len=%d' % (16384 if corpus_kind == 'seeded' else 2048),
               '-artifact_prefix=' + arts + '/', '-print_final_stats=1', '-seed=%d' % (ctx.seed * 100 + ctx.shard_index)]
        try:
            p = subprocess.run(cmd, stdout=subprocess.PIPE, stderr=subprocess.STDOUT, timeout=wall * 3 + 300,
                               cwd=VERIF)
            log = p.stdout.decode('utf-8', 'replace')
            ctx.count('atheris_exit_%d' % p.returncode)
        except subprocess.TimeoutExpired as e:
            log = (e.stdout or b'').decode('utf-8', 'replace')
            ctx.count('atheris_wall_cap_killed')
        execs = 0
        for line in log.splitlines():
            if 'stat::number_of_executed_units' in line:
                try:
                    execs = int(line.split(':')[-1])
                except ValueError:
                    pass
        if not execs:
            import re
            m = re.findall(r'^#(\d+)\s', log, re.M)
            execs = int(m[-1]) if m else 0
        ctx.count('atheris_execs:%s:%s' % (fmt, corpus_kind), execs)
        if execs == 0 and 'atheris_wall_cap_killed' not in ctx.extra:
            raise HarnessError('atheris campaign did not execute anything:\n' + log[-1500:])
        # every artifact (time-out / crash / oom candidates under libFuzzer's wall clock) and every corpus unit the
        # campaign kept is now judged by the CPU-time oracle
        for d, lab in ((arts, 'atheris:artifact'), (corpus, 'atheris:corpus')):
            for fn in sorted(os.listdir(d)):
                if d == corpus and fn.startswith('seed'):
                    continue
                with open(os.path.join(d, fn), 'rb') as f:
                    data = f.read()
                if data:
                    evaluate(ctx, fmt, data, labels=[lab] + ([lab + ':' + fn.split('-')[0]] if d == arts else []),
                             origin={'atheris': fn, 'corpus': corpus_kind})
    finally:
        shutil.rmtree(work, ignore_errors=True)


def _atheris_main(argv):
    """argv = [<fmt>, <corpus dir>, libFuzzer flags...]; started by _run_atheris in a fresh interpreter"""
    import atheris
    fmt = argv[0]
    import logging
    logging.disable(logging.CRITICAL)
    try:
        from loguru import logger
        logger.remove()
    except Exception:
        pass
    with atheris.instrument_imports(include=['androguard.core.dex', 'androguard.core.axml', 'androguard.core.apk',
                                             'androguard.core.mutf8', 'androguard.core.bytecode']):
        from androguard.core import dex, axml, apk  # noqa: F401
    target = TARGETS[fmt]
    sys.setrecursionlimit(1500)

    def one(data):
        FLAGS.clear()
        try:
            target(bytes(data))
        except MemoryError:
            pass
        except Exception:
            pass

    def mut(data, max_size, seed):
        b = bytearray(atheris.Mutate(bytes(data), max_size))
        if fmt == 'dex' and len(b) >= 0x70 and seed % 8:
            b = fix_dex(b)
        elif fmt in ('axml', 'arsc') and len(b) >= 8 and seed % 2:
            struct.pack_into('<I', b, 4, len(b))
        return bytes(b[:max_size])
    atheris.Setup(['c35-atheris-' + fmt] + argv[1:], one, custom_mutator=mut)
    atheris.Fuzz()


# =====================================================================================================
# replay / matchers
# =====================================================================================================
def replay(ctx, case):
    data = case['data']
    if isinstance(data, str):
        data = bytes.fromhex(data)
    try:
        evaluate(ctx, case['target'], data, origin=case.get('origin'), record=False)
    finally:
        for sb in list(_SB.values()):
            sb.close()
        _SB.clear()


MATCHERS = {}
