"""C12 — every instruction inside a try range carries that range's handlers.

Same generator as C10 with at least one try per method. T(b) = try ranges containing the address of an instruction of
block b (reference: vf.model.cfg over the try_items written by vf.gen.dexgen; for shipped files over the try_items read
by an own DEX reader). Oracle per block:
  * T(b) empty  -> get_exception_analysis() is None;
  * T(b) != {}  -> it is not None, its range starts at the start of a try in T(b) and covers exactly that try's
    instructions, its handler list [(type, address)] equals the encoded_catch_handler (typed handlers in order, then the
    catch-all reported as Ljava/lang/Throwable;), and every handler is linked to the block that *starts* at the address.
Blocks are always split at try starts (C10), so a block overlaps at most one try; if it overlapped several, any of them
is accepted (DESIGN O C12).
Histories (cfg_common): a share of the cases goes on after the first analysis - the same parsed DEX object is analysed
again ('history:reanalyse:*' buckets: the clauses must hold for the blocks of every analysis, judged by identity).
"""
from vf.checks import cfg_common as K

PROPERTY = 'C12'
LEVEL = 'exploration'
RULE = ('generated: batches of 1-6 abstract methods with 1-3 non-overlapping tries whose start/end are placed at, one instruction before and one after branch targets, adjacent tries, tries inside loops, branches into the middle of a try, shared handler lists, handlers inside their own try; shipped: as in C10 (all methods with tries are always included). non-trivial = some block starts strictly inside a try, or a try boundary is not a leader for any other reason; distinct = (code bytes, tries); histories (share of the cases, label history:*): 1/2 of the generated batches and every shipped DEX <= 100 kB analyse the SAME parsed DEX object again (second Analysis(d), one more MethodAnalysis(d, m)) and apply the oracle to the blocks of that later analysis')
ASSUMPTIONS = [
    'vf/gen/dalvik_spec.py, vf/gen/asm.py, vf/gen/dexgen.py and vf/gen/cfggen.py produce well-formed code items (typed from the Dalvik/DEX specifications; the length table tiles every shipped code item)',
    'reference semantics in vf/model/cfg.py: branch and switch-target offsets are relative to the branching instruction (code units), switch falls through, goto/return*/throw do not; a try covers the instructions whose address lies in [start_addr, start_addr+insn_count)',
    "shipped files: models are computed by an own DEX reader and an own table-driven sweep; a method is skipped (counted) when androguard's disassembly tiles the code differently (that is C02's subject) or when a switch payload is not 4-byte aligned (DESIGN S-note, C40 only)",
    'block boundaries and child/father/xref offsets are byte offsets from the start of the insns array, as androguard reports them',
]
EXHAUSTIVE = False


def shards(tier, seed):
    return K.shards(PROPERTY, tier, seed)


def run_shard(ctx, shard):
    K.run_shard(ctx, PROPERTY, shard)


def replay(ctx, case):
    K.replay(ctx, PROPERTY, case)
