"""C05 — the parsed DEX object model matches the file's declared structure.

Generator: vf.gen.dexstrat.dex_models (random class models) -> vf.gen.dexgen (independent DEX writer).
Oracle: projection equality with the model, in file order, plus the name/descriptor based lookups (including the
regex lookups, which are queried on a *freshly parsed* DEX before anything else touched the objects).
"""
import os
import re
import traceback
from vf.core.runner import hyp_collect
from vf.gen import dexgen as g
from vf.gen import dexstrat as ds

ds.pin_hypothesis()
SHRINK = not os.environ.get('VERIF_NOSHRINK')     # development switch (sensitivity runs): skip the shrink phase
PROPERTY = 'C05'
LEVEL = 'exploration'
RULE = ('random class models (0..8 classes quick, up to 40 thorough; SimpleName identifiers incl. $ - non-ASCII and '
        'non-BMP letters; default/nested packages; internal/external superclasses; 0..3 interfaces; legal flag sets; '
        'source file or NO_INDEX; static/instance fields; direct/virtual methods with primitive/array/class/wide '
        'parameters; abstract/native methods without code; code with random valid instruction bytes; classes without '
        'class_data; extra unrelated ids) written by the independent writer vf/gen/dexgen.py and parsed by DEX(). '
        'non-trivial = at least 2 classes and (a member index diff > 1, or a wide parameter, or a code-less method); '
        'distinct = the generated file bytes')
ASSUMPTIONS = ['vf/gen/dexgen.py writes well-formed DEX files per the DEX format specification (trusted writer)',
               'a case that burns more than 20 CPU-seconds (normal: milliseconds) is reported as a violation (bucket hang)',
               'single-result lookups (get_encoded_methods_class_method) may return any of several matching items',
               'a regex lookup called with pattern p must return exactly the items whose name satisfies re.match(p, name)']
EXHAUSTIVE = False
NO_INDEX = 0xffffffff


# ------------------------------------------------------------------------------------------ expected (from the model)
def expected_of(df):
    """JSON-able expectation computed from the model only (df.build() must have been called)."""
    ix = df.ix
    classes = []
    gap = wide = codeless = nodata = False
    for ci in df.class_order:
        c = df.classes[ci]
        mo = df.member_order[ci]
        fields, methods = [], []
        for kind in ('sfields', 'ifields'):
            prev = None
            for f in mo[kind]:
                i = ix.f(c.name, f.name, f.type)
                if prev is not None and i - prev > 1:
                    gap = True
                prev = i
                fields.append([c.name, f.name, f.type, f.access, kind[0]])
        for kind in ('dmethods', 'vmethods'):
            prev = None
            for m in mo[kind]:
                i = ix.m(c.name, m.name, m.ret, m.params)
                if prev is not None and i - prev > 1:
                    gap = True
                prev = i
                if any(p in ('J', 'D') for p in m.params):
                    wide = True
                code = None
                if m.code is not None:
                    insns = m.code.insns(ix) if callable(m.code.insns) else bytes(m.code.insns)
                    code = [m.code.regs, m.code.ins, m.code.outs, insns.hex()]
                else:
                    codeless = True
                methods.append([c.name, m.name, ds.spaced_descriptor(m.ret, m.params), m.access, kind[0], code])
        if not (fields or methods):
            nodata = True
        classes.append({'name': c.name, 'super': c.super, 'interfaces': list(c.interfaces), 'flags': c.access,
                        'source_idx': ix.s(c.source) if c.source is not None else NO_INDEX, 'source': c.source,
                        'fields': fields, 'methods': methods})
    return {'classes': classes,
            'field_ids': [[f[0], f[1], f[2]] for f in df.fields],
            'method_ids': [[m[0], m[1], '(' + ' '.join(m[2][1]) + ')', m[2][0]] for m in df.methods],
            'features': {'gap': gap, 'wide': wide, 'codeless': codeless, 'nodata': nodata}}


def N(x):
    """normal form of returned text: a str is compared as UTF-16 text (a surrogate pair and the supplementary character it
    encodes are the same text); lists are normalised element-wise"""
    if isinstance(x, str):
        return g.from_units(g.units(x))
    if isinstance(x, (list, tuple)):
        return [N(v) for v in x]
    return x


def _near(names):
    """deterministic query names: every name, plus near misses (prefix, extension, case flip)"""
    out = []
    for n in names:
        for q in (n, n[:-1], n + '0', n.swapcase(), n[1:]):
            if q and q not in out:
                out.append(q)
    return out


# ------------------------------------------------------------------------------------------ CPU watchdog
class Hang(BaseException):
    """raised by the CPU watchdog (BaseException: must not be swallowed by `except Exception` in the code under test)"""


HANGS = {'n': 0}
MAX_HANGS = 10


def too_many_hangs(ctx):
    """after MAX_HANGS watchdog hits in this worker process the remaining cases are skipped (and counted): the violation
    is already established and every further hang would cost CPU-seconds for no new information"""
    if HANGS['n'] >= MAX_HANGS:
        ctx.count('skipped_after_%d_hangs' % MAX_HANGS)
        return True
    return False


class cpu_limit:
    """Context manager: raise Hang in this (main) thread once the process has burnt `seconds` of *CPU* time inside the
    block (ITIMER_VIRTUAL counts user CPU time of the process, so machine load cannot trigger it). Parsing one of the
    generated files takes milliseconds; a parser that loops forever on a well-formed file (e.g. a string reader that
    misses the terminator and spins at EOF) is turned into a reported violation instead of a hung, memory-eating run.
    The first three hits use the full limit, later ones a quarter of it."""

    def __init__(self, seconds=20.0):
        self.seconds = seconds if HANGS['n'] < 3 else seconds / 4.0

    def _fire(self, signum, frame):
        HANGS['n'] += 1
        raise Hang()

    def __enter__(self):
        import signal
        self._old = signal.signal(signal.SIGVTALRM, self._fire)
        signal.setitimer(signal.ITIMER_VIRTUAL, self.seconds)
        return self

    def __exit__(self, *exc):
        import signal
        signal.setitimer(signal.ITIMER_VIRTUAL, 0)
        signal.signal(signal.SIGVTALRM, self._old)
        return False


# ------------------------------------------------------------------------------------------ oracle
MAX_FULL_REPORTS = 12
_SMALLEST = {}


def _worth_reporting(ctx, bucket, dex_len):
    """full ctx.fail report for the first MAX_FULL_REPORTS cases of a bucket in a shard and for every case that is
    smaller than anything reported so far (so a shrunk case is always recorded); otherwise only count the occurrence"""
    key = (id(ctx), bucket)
    best = _SMALLEST.get(key)
    if getattr(ctx, '_shrink_bucket', None) is not None or ctx.fail_counts[bucket] < MAX_FULL_REPORTS or best is None \
            or dex_len < best:
        if best is None or dex_len < best:
            _SMALLEST[key] = dex_len
        return True
    ctx.fail_counts[bucket] += 1
    return False


class _OncePerCase:
    """ctx proxy used inside one evaluate() call: each bucket is reported at most once per case (a broken parser fails
    dozens of comparisons of the same clause on one file; one report per clause and case is enough and much cheaper)"""

    def __init__(self, ctx):
        self._ctx, self._seen = ctx, set()

    def fail(self, bucket, case, msg=''):
        if bucket in self._seen:
            return
        self._seen.add(bucket)
        if _worth_reporting(self._ctx, bucket, len(case['dex'])):
            self._ctx.fail(bucket, case, msg)

    def check(self, cond, bucket, case, msg=''):
        if not cond:
            self.fail(bucket, case() if callable(case) else case, msg)
        return cond


def evaluate(ctx, buf, exp, case=None):
    if case is None:
        case = {'dex': buf, 'expected': exp}
    if too_many_hangs(ctx):
        return
    try:
        with cpu_limit():
            _evaluate(_OncePerCase(ctx), buf, exp, case)
    except Hang:
        ctx.fail('hang', case, 'parsing/querying this %d-byte well-formed file did not finish within 20 CPU-seconds '
                 '(normal: milliseconds)' % len(buf))


def _evaluate(ctx, buf, exp, case):
    from androguard.core import dex

    def guarded(where, fn, *a):
        try:
            return True, fn(*a)
        except Exception as e:
            ctx.fail('exception:%s:%s' % (type(e).__name__, where), case, traceback.format_exc())
            return False, None

    ok, d = guarded('DEX', dex.DEX, buf)
    if not ok:
        return

    eclasses = exp['classes']
    all_methods = [m for c in eclasses for m in c['methods']]
    all_fields = [f for c in eclasses for f in c['fields']]

    # ---- 1. regex lookups on the freshly parsed object (nothing loaded yet) -------------------------------
    def regex_lookup(api, patterns_from, universe_fn, model_names):
        """universe_fn() -> androguard's full item list (aligned with model_names by position)"""
        for q in _near(patterns_from):
            pat = re.escape(q)
            want = sorted(i for i, n in enumerate(model_names) if re.match(pat, n))
            ok, got = guarded(api, getattr(d, api), pat)
            if not ok:
                return
            ok2, uni = guarded(api + ':universe', universe_fn)
            if not ok2:
                return
            pos = {id(o): i for i, o in enumerate(uni)}
            if len(uni) != len(model_names) or any(id(o) not in pos for o in got):
                ctx.fail('lookup:%s:universe' % api, case, 'pattern %r: %d items returned, universe %d vs model %d'
                         % (pat, len(got), len(uni), len(model_names)))
                return
            gi = sorted(pos[id(o)] for o in got)
            if gi != want:
                ctx.fail('lookup:%s' % api, case, 'pattern %r returned item indices %r, model says %r' % (pat, gi, want))
                return

    mnames = sorted({m[1] for m in all_methods})
    fnames = sorted({f[1] for f in all_fields})
    regex_lookup('get_encoded_method', mnames or ['m'], d.get_encoded_methods, [m[1] for m in all_methods])
    regex_lookup('get_method', sorted({m[1] for m in exp['method_ids']}) or ['m'], d.get_methods,
                 [m[1] for m in exp['method_ids']])
    regex_lookup('get_field', sorted({f[1] for f in exp['field_ids']}) or ['f'], d.get_fields,
                 [f[1] for f in exp['field_ids']])
    regex_lookup('get_encoded_field', fnames or ['f'], d.get_encoded_fields, [f[1] for f in all_fields])

    # ---- 2. projection, in file order ---------------------------------------------------------------------
    ok, classes = guarded('get_classes', lambda: list(d.get_classes()))
    if not ok:
        return
    if not ctx.check(len(classes) == len(eclasses), 'count:classes', case,
                     'parser reports %d classes, file declares %d' % (len(classes), len(eclasses))):
        return
    cm = d.get_class_manager()
    em_objs, ef_objs = [], []          # androguard objects aligned with all_methods / all_fields
    aligned = True
    for k, e in zip(classes, eclasses):
        def cmp(attr, fn, want, e=e):
            ok, got = guarded('class.' + attr, fn)
            if ok:
                got = N(got)
                ctx.check(got == want, 'class:' + attr, case, 'class %r: %s is %r, file declares %r' % (e['name'], attr, got, want))
        cmp('name', k.get_name, e['name'])
        if e['super'] is not None:
            cmp('super', k.get_superclassname, e['super'])
        else:
            # the root class declares NO_INDEX: the statement fixes no name for "no superclass", only the index is compared
            cmp('super_idx', k.get_superclass_idx, NO_INDEX)
        cmp('interfaces', lambda: list(k.get_interfaces()), e['interfaces'])
        cmp('flags', k.get_access_flags, e['flags'])
        cmp('source_idx', k.get_source_file_idx, e['source_idx'])
        if e['source'] is not None:
            cmp('source', lambda: cm.get_string(k.get_source_file_idx()), e['source'])

        ok, fl = guarded('class.get_fields', lambda: list(k.get_fields()))
        ok2, ml = guarded('class.get_methods', lambda: list(k.get_methods()))
        if not (ok and ok2):
            aligned = False
            continue
        if not ctx.check(len(fl) == len(e['fields']), 'count:fields', case,
                         'class %r: %d fields, file declares %d' % (e['name'], len(fl), len(e['fields']))):
            aligned = False
        if not ctx.check(len(ml) == len(e['methods']), 'count:methods', case,
                         'class %r: %d methods, file declares %d' % (e['name'], len(ml), len(e['methods']))):
            aligned = False
        # static/instance and direct/virtual partition
        cd = k.get_class_data()
        if cd is not None:
            ok, parts = guarded('class_data.partition', lambda: (
                len(cd.get_static_fields()), len(cd.get_instance_fields()),
                len(cd.get_direct_methods()), len(cd.get_virtual_methods())))
            if ok:
                want = (sum(1 for f in e['fields'] if f[4] == 's'), sum(1 for f in e['fields'] if f[4] == 'i'),
                        sum(1 for m in e['methods'] if m[4] == 'd'), sum(1 for m in e['methods'] if m[4] == 'v'))
                ctx.check(parts == want, 'partition', case, 'class %r: (static, instance, direct, virtual) sizes %r, file declares %r'
                          % (e['name'], parts, want))
                if parts == want and aligned:
                    ok, ident = guarded('class_data.lists', lambda: (
                        [id(x) for x in cd.get_static_fields() + cd.get_instance_fields()] == [id(x) for x in fl],
                        [id(x) for x in cd.get_direct_methods() + cd.get_virtual_methods()] == [id(x) for x in ml]))
                    if ok:
                        ctx.check(ident == (True, True), 'partition:order', case,
                                  'class %r: get_fields/get_methods is not static+instance / direct+virtual' % e['name'])
        else:
            ctx.check(not e['fields'] and not e['methods'], 'class_data:missing', case,
                      'class %r has members but no class_data_item was attached' % e['name'])
        for f, ef in zip(fl, e['fields']):
            ok, got = guarded('field', lambda: N([f.get_class_name(), f.get_name(), f.get_descriptor(), f.get_access_flags()]))
            if ok:
                for a, gv, wv in zip(('class', 'name', 'type', 'flags'), got, ef[:4]):
                    ctx.check(gv == wv, 'field:' + a, case, 'field %r of %r: %s is %r, file declares %r' % (ef[1], ef[0], a, gv, wv))
        for m, em in zip(ml, e['methods']):
            ok, got = guarded('method', lambda: N([m.get_class_name(), m.get_name(), m.get_descriptor(), m.get_access_flags()]))
            if ok:
                for a, gv, wv in zip(('class', 'name', 'descriptor', 'flags'), got, em[:4]):
                    ctx.check(gv == wv, 'method:' + a, case, 'method %r of %r: %s is %r, file declares %r' % (em[1], em[0], a, gv, wv))
            ok, code = guarded('method.get_code', m.get_code)
            if ok:
                if em[5] is None:
                    ctx.check(code is None, 'method:code_presence', case, 'method %r %s of %r has no code in the file but get_code() is %r'
                              % (em[1], em[2], em[0], code))
                elif ctx.check(code is not None, 'method:code_presence', case,
                               'method %r %s of %r has code in the file but get_code() is None' % (em[1], em[2], em[0])):
                    ok, got = guarded('code', lambda: [code.get_registers_size(), code.get_ins_size(), code.get_outs_size(),
                                                       bytes(code.get_bc().get_insn()).hex()])
                    if ok:
                        for a, gv, wv in zip(('registers', 'ins', 'outs', 'code_bytes'), got, em[5]):
                            ctx.check(gv == wv, 'method:' + a, case, 'method %r %s of %r: %s is %r, file declares %r'
                                      % (em[1], em[2], em[0], a, gv, wv))
        ef_objs.extend(fl)
        em_objs.extend(ml)

    # ---- 3. id tables (the universe of get_method / get_field) ---------------------------------------------
    ok, mids = guarded('get_methods', lambda: list(d.get_methods()))
    if ok and ctx.check(len(mids) == len(exp['method_ids']), 'count:method_ids', case,
                        '%d method ids, file declares %d' % (len(mids), len(exp['method_ids']))):
        for o, w in zip(mids, exp['method_ids']):
            ok, got = guarded('method_id', lambda: N([o.get_class_name(), o.get_name(), o.get_proto()[0], o.get_proto()[1]]))
            if ok:
                ctx.check(got == w, 'method_id', case, 'method id %r, file declares %r' % (got, w))
    ok, fids = guarded('get_fields', lambda: list(d.get_fields()))
    if ok and ctx.check(len(fids) == len(exp['field_ids']), 'count:field_ids', case,
                        '%d field ids, file declares %d' % (len(fids), len(exp['field_ids']))):
        for o, w in zip(fids, exp['field_ids']):
            ok, got = guarded('field_id', lambda: N([o.get_class_name(), o.get_name(), o.get_type()]))
            if ok:
                ctx.check(got == w, 'field_id', case, 'field id %r, file declares %r' % (got, w))

    if not aligned or len(em_objs) != len(all_methods) or len(ef_objs) != len(all_fields):
        return

    # ---- 4. exact lookups ----------------------------------------------------------------------------------
    mpos = {id(o): i for i, o in enumerate(em_objs)}
    fpos = {id(o): i for i, o in enumerate(ef_objs)}
    cnames = [e['name'] for e in eclasses]
    for q in cnames + [n[:-1] + '0;' for n in cnames[:3]] + ['Lnot/Present;']:
        ok, got = guarded('get_class', d.get_class, q)
        if ok:
            want = cnames.index(q) if q in cnames else None
            gi = None if got is None else next((i for i, k in enumerate(classes) if k is got), -1)
            ctx.check(gi == want, 'lookup:get_class', case, 'get_class(%r) -> class #%r, expected #%r' % (q, gi, want))

    other_cls = cnames + ['Lnot/Present;']
    descs = sorted({m[2] for m in all_methods}) + ['(Lnot/Present;)V']
    mq = []
    for i, m in enumerate(all_methods):
        mq.append((m[0], m[1], m[2]))
        mq.append((other_cls[(i + 1) % len(other_cls)], m[1], m[2]))
        mq.append((m[0], m[1], descs[(i + 1) % len(descs)]))
        mq.append((m[0], m[1] + '0', m[2]))
        mq.append((m[0], all_methods[(i + 1) % len(all_methods)][1], m[2]))
    for (c, n, dsc) in mq[:200]:
        want = [i for i, m in enumerate(all_methods) if (m[0], m[1], m[2]) == (c, n, dsc)]
        ok, got = guarded('get_encoded_method_descriptor', d.get_encoded_method_descriptor, c, n, dsc)
        if ok:
            gi = [] if got is None else [mpos.get(id(got), -1)]
            ctx.check(gi == want, 'lookup:get_encoded_method_descriptor', case,
                      'get_encoded_method_descriptor(%r, %r, %r) -> method %r, expected %r' % (c, n, dsc, gi, want))
    for (c, n) in sorted({(q[0], q[1]) for q in mq[:200]}):
        want = [i for i, m in enumerate(all_methods) if (m[0], m[1]) == (c, n)]
        ok, got = guarded('get_encoded_methods_class_method', d.get_encoded_methods_class_method, c, n)
        if ok:
            gi = None if got is None else mpos.get(id(got), -1)
            ctx.check((gi is None and not want) or gi in want, 'lookup:get_encoded_methods_class_method', case,
                      'get_encoded_methods_class_method(%r, %r) -> method %r, matching %r' % (c, n, gi, want))
    for c in other_cls + [n[:-1] + '0;' for n in cnames[:3]]:
        want = [i for i, m in enumerate(all_methods) if m[0] == c]
        ok, got = guarded('get_encoded_methods_class', d.get_encoded_methods_class, c)
        if ok:
            gi = sorted(mpos.get(id(o), -1) for o in got)
            ctx.check(gi == want, 'lookup:get_encoded_methods_class', case,
                      'get_encoded_methods_class(%r) -> methods %r, expected %r' % (c, gi, want))
        want = [i for i, f in enumerate(all_fields) if f[0] == c]
        ok, got = guarded('get_encoded_fields_class', d.get_encoded_fields_class, c)
        if ok:
            gi = sorted(fpos.get(id(o), -1) for o in got)
            ctx.check(gi == want, 'lookup:get_encoded_fields_class', case,
                      'get_encoded_fields_class(%r) -> fields %r, expected %r' % (c, gi, want))
    ftypes = sorted({f[2] for f in all_fields}) + ['Lnot/Present;']
    fq = []
    for i, f in enumerate(all_fields):
        fq.append((f[0], f[1], f[2]))
        fq.append((other_cls[(i + 1) % len(other_cls)], f[1], f[2]))
        fq.append((f[0], f[1], ftypes[(i + 1) % len(ftypes)]))
        fq.append((f[0], f[1] + '0', f[2]))
    for (c, n, t) in fq[:200]:
        want = [i for i, f in enumerate(all_fields) if (f[0], f[1], f[2]) == (c, n, t)]
        ok, got = guarded('get_encoded_field_descriptor', d.get_encoded_field_descriptor, c, n, t)
        if ok:
            gi = [] if got is None else [fpos.get(id(got), -1)]
            ctx.check(gi == want, 'lookup:get_encoded_field_descriptor', case,
                      'get_encoded_field_descriptor(%r, %r, %r) -> field %r, expected %r' % (c, n, t, gi, want))

    # ---- 5. the regex lookups again, now that every item is loaded -----------------------------------------
    regex_lookup('get_encoded_method', mnames[:4] or ['m'], d.get_encoded_methods, [m[1] for m in all_methods])
    regex_lookup('get_encoded_field', fnames[:4] or ['f'], d.get_encoded_fields, [f[1] for f in all_fields])


def check_model(ctx, df):
    buf = df.build()
    exp = expected_of(df)
    ft = exp['features']
    ncls = len(exp['classes'])
    nt = ncls >= 2 and (ft['gap'] or ft['wide'] or ft['codeless'])
    names = ''.join(c['name'] for c in exp['classes'])
    labels = ['classes:%s' % (ncls if ncls < 4 else '4-8' if ncls <= 8 else '9+'), 'version:' + df.version]
    labels += [k for k in ('gap', 'wide', 'codeless', 'nodata') if ft[k]]
    if any(ord(ch) > 0x7f for ch in names):
        labels.append('nonascii-class-name')
    if any(ord(ch) > 0xffff for c in exp['classes'] for x in c['fields'] + c['methods'] for ch in x[1]):
        labels.append('nonbmp-member-name')
    if any('/' not in c['name'] for c in exp['classes']):
        labels.append('default-package')
    if any(c['super'] in {x['name'] for x in exp['classes']} for c in exp['classes']):
        labels.append('internal-super')
    if any(c['source'] is None for c in exp['classes']):
        labels.append('no-source')
    if any(m[5] and m[5][0] > 255 for c in exp['classes'] for m in c['methods']):
        labels.append('regs>255')
    ctx.case(nontrivial=nt, key=buf, labels=labels,
             sample={'classes': [c['name'] for c in exp['classes']], 'size': len(buf),
                     'members': sum(len(c['fields']) + len(c['methods']) for c in exp['classes']), 'features': ft})
    evaluate(ctx, buf, exp)


# ------------------------------------------------------------------------------------------ fixed cases
def fixed_models():
    C, F, M, Code = g.Class, g.Field, g.Method, g.Code
    rv = bytes.fromhex('0e00')
    out = []
    out.append(g.DexFile([]))
    out.append(g.DexFile([], extra_refs=[('s', 'only a string')]))
    out.append(g.DexFile([C('LA;')]))
    out.append(g.DexFile([C('Ljava/lang/Object;', 0x1, None, [], 'Object.java',
                            dmethods=[M('<init>', 'V', (), 0x10001, Code(1, 1, 0, rv))]),
                          C('LA;', 0x1, 'Ljava/lang/Object;')]))
    out.append(g.DexFile([C('LA;', 0x1, 'Ljava/lang/Object;', [], None,
                            dmethods=[M('x', 'V', (), 0x9, Code(0, 0, 0, rv))])]))
    out.append(g.DexFile([
        C('La/B;', 0x401, 'Ljava/lang/Object;', ['La/I;', 'Ljava/lang/Runnable;'], 'B.java',
          sfields=[F('s', 'I', 0x9), F('s', 'J', 0x19)], ifields=[F('s', 'Ljava/lang/String;', 0x2), F('t', '[[D', 0x4)],
          dmethods=[M('<init>', 'V', ('J', 'D'), 0x10001, Code(6, 5, 1, bytes.fromhex('12000e00'))),
                    M('<clinit>', 'V', (), 0x10008, Code(0, 0, 0, rv)), M('p', 'I', ('[I',), 0x2, Code(3, 2, 0, bytes.fromhex('12000f00')))],
          vmethods=[M('run', 'V', (), 0x1, Code(1, 1, 0, rv)), M('run', 'V', ('I',), 0x401), M('nat', 'J', ('La/B;', 'J'), 0x101)]),
        C('La/I;', 0x601, 'Ljava/lang/Object;', [], None, vmethods=[M('run', 'V', (), 0x401)]),
        C('La/C;', 0x11, 'La/B;', ['La/I;'], '', ifields=[F('zz', 'Z', 0x0)])],
        extra_refs=[('f', 'La/B;', 's', 'Z'), ('f', 'La/B;', 's0', 'I'), ('m', 'La/B;', 'run', 'V', ('B',)),
                    ('m', 'La/B;', 'o', 'V', ()), ('m', 'La/C;', 'run', 'V', ()), ('s', 'zzz'), ('t', '[La/C;')]))
    return out


# ------------------------------------------------------------------------------------------ harness glue
def shards(tier, seed):
    n = 16 if tier == 'quick' else 48
    return [('fixed',)] + [('hyp', k) for k in range(n)]


def run_shard(ctx, shard):
    if shard[0] == 'fixed':
        for df in fixed_models():
            check_model(ctx, df)
        return
    k = shard[1]
    if ctx.tier == 'quick':
        n, strat = 220, ds.dex_models(max_classes=8)
    elif k % 4 == 0:
        n, strat = 150, ds.dex_models(min_classes=9, max_classes=40, max_fields=3, max_methods=3)
    else:
        n, strat = 1500, ds.dex_models(max_classes=8)
    hyp_collect(ctx, strat, check_model, n, salt=k, shrink_examples=150, shrink=SHRINK)


def replay(ctx, case):
    evaluate(ctx, case['dex'], case['expected'])
