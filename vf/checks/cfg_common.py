"""Shared machinery of C10 / C11 / C12 / C40 (not a check itself): build generated DEX files with
vf.gen.cfggen, analyse them with androguard, observe basic blocks / CFG / exception info / offsets and compare with
the reference model vf.model.cfg. The same oracles run over every method of the shipped DEX/APK files.

Each check module (c10.py, c11.py, c12.py, c40.py) binds PROP and re-exports shards / run_shard / replay.

API histories. The statements quantify over "every method" of a DEX object, not over "the first analysis of a freshly
parsed file"; a share of the cases therefore continues after the first analysis (the history is part of the case:
drawn by the strategy for generated batches, a function of the file for shipped ones, case['history'] in replay):
  'reanalyse'         the SAME parsed DEX object is analysed again (a second Analysis(d) for all methods, then one
                      more MethodAnalysis(d, m)); the first analysis has been queried by the oracle in between. The
                      oracle of the property must hold for every later analysis as well, judged against that analysis'
                      own blocks (identity). Buckets 'history:reanalyse:<clause>'.
  'set-instructions'  (generated methods without tries) the same abstract method is assembled in another layout
                      (1-4 nops in front, optionally a payload moved: vf.gen.cfggen.relayout), the new bytes are
                      disassembled with androguard's own LinearSweepAlgorithm and installed with the documented setter
                      EncodedMethod.set_instructions(); a new MethodAnalysis(d, m) is judged against the model of the
                      NEW layout. Methods with tries are left out: the setter replaces the instruction list only, the
                      try table of the code item keeps the old addresses, so the statement about try starts / handler
                      addresses has no sound reading there. Buckets 'history:set-instructions:<clause>'.
Counters 'history:<name>:methods' say how many method cases ran a history.
"""
import hashlib
import os
import traceback
import zipfile

from hypothesis import strategies as st

from vf.core.runner import hyp_collect, HarnessError
from vf.gen import cfggen as CG
from vf.model import cfg as M

THROWABLE = 'Ljava/lang/Throwable;'          # how androguard names the catch-all handler
EMPTIED = '/root/.vp/EMPTIED_FILES.txt'


# ---------------------------------------------------------------------------------------------------
# observation
# ---------------------------------------------------------------------------------------------------
class Obs:
    """what androguard reports for one method"""

    def __init__(self, m, ma):
        self.m, self.ma = m, ma
        self.ins = list(m.get_instructions_idx())                 # [(byte offset, Instruction)]
        self.obj_at = {off: i for off, i in self.ins}
        self.offsets = [off for off, _ in self.ins]
        self.code_len = (self.ins[-1][0] + self.ins[-1][1].get_length()) if self.ins else 0
        self.blocks = list(ma.get_basic_blocks().gets())

    def tiling(self):
        return [(off, i.get_length()) for off, i in self.ins]


def bdesc(b):
    ea = b.get_exception_analysis()
    return {'start': b.get_start(), 'end': b.get_end(),
            'childs': [(c[0], c[1], c[2].get_start() if c[2] is not None else None) for c in b.childs],
            'fathers': [(f[0], f[1], f[2].get_start() if f[2] is not None else None) for f in b.fathers],
            'exception': None if ea is None else
            {'start': ea.start, 'end': ea.end,
             'handlers': [(e[0], e[1], e[2].get_start() if len(e) > 2 and e[2] is not None else None) for e in ea.exceptions]}}


# ---------------------------------------------------------------------------------------------------
# oracles: each returns a list of (bucket, message, detail dict)
# ---------------------------------------------------------------------------------------------------
def oracle_c10(mm, ob):
    out = []
    bl = ob.blocks
    if not mm.items:
        return out
    if not bl:
        return [('partition:no-blocks', 'method with %d instructions has no basic block' % len(mm.items), {})]
    starts = [b.get_start() for b in bl]
    ends = [b.get_end() for b in bl]
    if starts != sorted(starts):
        out.append(('partition:unsorted', 'block starts not ascending: %r' % starts[:20], {}))
    if starts[0] != 0:
        out.append(('partition:first-start', 'first block starts at %d' % starts[0], {}))
    for i in range(len(bl) - 1):
        if ends[i] != starts[i + 1]:
            out.append(('partition:gap-or-overlap', 'block %d ends at %d, block %d starts at %d' % (i, ends[i], i + 1, starts[i + 1]),
                        {'blocks': [bdesc(bl[i]), bdesc(bl[i + 1])]}))
            break
    if ends[-1] != mm.code_len:
        out.append(('partition:last-end', 'last block ends at %d, code has %d bytes' % (ends[-1], mm.code_len), {}))
    # instructions of a block = the instructions at offsets in [start, end), in order, each exactly once
    seen = []
    for b in bl:
        got = list(b.get_instructions())
        exp = [ob.obj_at[o] for o in mm.offsets_in(b.get_start(), b.get_end()) if o in ob.obj_at]
        if not exp:
            out.append(('partition:empty-block', 'block [%d,%d) contains no instruction' % (b.get_start(), b.get_end()), {'block': bdesc(b)}))
        if len(got) != len(exp) or any(g is not e for g, e in zip(got, exp)):
            out.append(('instructions:block-content', 'block [%d,%d): get_instructions() yields %d instructions, %d instruction '
                        'offsets lie in the range' % (b.get_start(), b.get_end(), len(got), len(exp)), {'block': bdesc(b)}))
        seen.extend(got)
    allins = [i for _, i in ob.ins]
    if len(seen) != len(allins) or any(a is not b_ for a, b_ in zip(seen, allins)):
        out.append(('instructions:cover-once-in-order', 'concatenated block instructions (%d) differ from the method\'s '
                    'instruction list (%d)' % (len(seen), len(allins)), {}))
    # required leaders
    sset = set(starts)
    for off, why in sorted(mm.required_leaders().items()):
        if off not in sset:
            out.append(('leader:' + '+'.join(sorted(why)), 'offset %d (%s) does not begin a block; block starts: %r'
                        % (off, ', '.join(sorted(why)), starts[:40]), {'offset': off, 'sources': sorted(why)}))
    # only the last instruction of a block can branch / switch / return / throw
    for b in bl:
        offs = mm.offsets_in(b.get_start(), b.get_end())
        for o in offs[:-1]:
            it = mm.at[o]
            if mm.is_terminator(it):
                out.append(('terminator-mid-block:' + mm.kind_of(it), '%s at %d is not the last instruction of its block [%d,%d)'
                            % (mm.kind_of(it), o, b.get_start(), b.get_end()), {'block': bdesc(b)}))
    return out


def _last_item(mm, b):
    offs = mm.offsets_in(b.get_start(), b.get_end())
    return mm.at[offs[-1]] if offs else None


def oracle_c11(mm, ob):
    out = []
    bl = ob.blocks
    by_id = {id(b): b for b in bl}
    for b in bl:
        last = _last_item(mm, b)
        if last is None:
            continue
        kind = mm.kind_of(last)
        for c in b.childs:
            if len(c) != 3 or c[2] is None or id(c[2]) not in by_id:
                out.append(('child-triple:foreign-block:' + kind, 'block [%d,%d) has child entry %r that is not a block of this method'
                            % (b.get_start(), b.get_end(), c[:2]), {'block': bdesc(b)}))
                continue
            if c[0] != last.off or c[1] != c[2].get_start():
                out.append(('child-triple:' + kind, 'block [%d,%d) (last instruction %s at %d): child triple (%r, %r, block@%d) is not '
                            '(offset of last instruction, target, block starting at target)'
                            % (b.get_start(), b.get_end(), kind, last.off, c[0], c[1], c[2].get_start()), {'block': bdesc(b)}))
        exp = mm.successors(last)
        if exp is not None:
            got = {c[2].get_start() for c in b.childs if len(c) == 3 and c[2] is not None}
            if got != exp:
                shape = 'missing' if exp - got else 'extra'
                out.append(('succ:%s:%s' % (kind, shape), 'block [%d,%d) ends with %s at %d: successors %r, the bytecode allows %r'
                            % (b.get_start(), b.get_end(), kind, last.off, sorted(got), sorted(exp)),
                            {'block': bdesc(b), 'expected': sorted(exp)}))
    # fathers = inverse of childs
    for b in bl:
        exp_f = set()
        for x in bl:
            for c in x.childs:
                if len(c) == 3 and c[2] is b:
                    exp_f.add(x.get_start())
        got_f = set()
        for f in b.fathers:
            fb = f[2] if len(f) == 3 else None
            if fb is None or id(fb) not in by_id:
                out.append(('fathers:foreign-block', 'block [%d,%d) has a father entry that is not a block of this method'
                            % (b.get_start(), b.get_end()), {'block': bdesc(b)}))
                continue
            got_f.add(fb.get_start())
            fl = _last_item(mm, fb)
            if f[0] != b.get_start() or fl is None or f[1] != fl.off or not any(c[2] is b and c[0] == f[1] and c[1] == f[0] for c in fb.childs):
                out.append(('fathers:triple', 'block [%d,%d): father triple (%r, %r, block@%d) has no matching child triple'
                            % (b.get_start(), b.get_end(), f[0], f[1], fb.get_start()), {'block': bdesc(b), 'father': bdesc(fb)}))
        if got_f != exp_f:
            out.append(('fathers:not-inverse', 'block [%d,%d): fathers %r but the blocks that list it as child are %r'
                        % (b.get_start(), b.get_end(), sorted(got_f), sorted(exp_f)), {'block': bdesc(b)}))
    return out


def _block_try_shape(b, t):
    if b.get_start() >= t.start and b.get_end() <= t.end:
        return 'block-within-try'
    if b.get_start() >= t.start:
        return 'block-starts-in-try-ends-after'
    if b.get_end() <= t.end:
        return 'block-starts-before-try'
    return 'block-contains-try'


def oracle_c12(mm, ob):
    out = []
    bstart = {b.get_start(): b for b in ob.blocks}
    for b in ob.blocks:
        T = mm.tries_overlapping(b.get_start(), b.get_end())
        ea = b.get_exception_analysis()
        if not T:
            if ea is not None:
                out.append(('spurious', 'block [%d,%d) reports try range %r..%r which covers none of its instructions'
                            % (b.get_start(), b.get_end(), ea.start, ea.end), {'block': bdesc(b)}))
            continue
        shape = _block_try_shape(b, T[0])
        if ea is None:
            out.append(('missing:' + shape, 'block [%d,%d) has instructions covered by try [%d,%d) but reports no exception information'
                        % (b.get_start(), b.get_end(), T[0].start, T[0].end),
                        {'block': bdesc(b), 'try': [T[0].start, T[0].end, mm.handler_list(T[0])]}))
            continue
        match = [t for t in T if t.start == ea.start]
        if not match or mm.offsets_in(ea.start, ea.end + 1) != mm.try_offsets(match[0]):
            out.append(('wrong-range:' + shape, 'block [%d,%d) reports try range %r..%r; try ranges covering its instructions: %r'
                        % (b.get_start(), b.get_end(), ea.start, ea.end, [(t.start, t.end) for t in T]), {'block': bdesc(b)}))
            continue
        t = match[0]
        exp = [(THROWABLE if ty == M.CATCH_ALL else ty, a) for (ty, a) in mm.handler_list(t)]
        got = [(e[0], e[1]) for e in ea.exceptions]
        if got != exp:
            out.append(('handlers:list', 'block [%d,%d) in try [%d,%d): handlers %r, the code item says %r'
                        % (b.get_start(), b.get_end(), t.start, t.end, got, exp), {'block': bdesc(b)}))
            continue
        for e in ea.exceptions:
            hb = e[2] if len(e) > 2 else None
            if hb is None or hb.get_start() != e[1] or bstart.get(e[1]) is not hb:
                what = 'no block' if hb is None else 'block@%d' % hb.get_start()
                if hb is not None and hb.get_start() == e[1]:
                    what = 'a block object [%d,%d) that is not a block of this analysis of the method' % (hb.get_start(), hb.get_end())
                out.append(('handlers:block', 'block [%d,%d): handler (%s -> %d) is linked to %s, not to the block starting at the handler address'
                            % (b.get_start(), b.get_end(), e[0], e[1], what), {'block': bdesc(b), 'handler_entry_length': len(e)}))
    return out


def oracle_c40(mm, ob):
    """per-method part: block boundaries, special_ins keys and payload links"""
    out = []
    D = set(ob.offsets)
    for b in ob.blocks:
        if b.get_start() not in D:
            out.append(('boundary:start', 'block start %d is not an instruction offset' % b.get_start(), {'block': bdesc(b)}))
        if b.get_end() not in D and b.get_end() != ob.code_len:
            out.append(('boundary:end', 'block end %d is not an instruction offset' % b.get_end(), {'block': bdesc(b)}))
        for c in b.childs:
            if c[0] not in D or c[1] not in D:
                out.append(('boundary:child-offsets', 'child triple offsets (%r, %r) of block [%d,%d) are not instruction offsets'
                            % (c[0], c[1], b.get_start(), b.get_end()), {'block': bdesc(b)}))
        for k in b.special_ins:
            it = mm.at.get(k)
            if k not in D or it is None or it.kind != 'ins' or it.op not in (0x26, 0x2b, 0x2c):
                out.append(('special:key', 'special_ins key %r of block [%d,%d) is not the offset of a switch / fill-array-data instruction'
                            % (k, b.get_start(), b.get_end()), {'block': bdesc(b)}))
    for it in mm.items:
        if it.kind != 'ins' or it.op not in (0x26, 0x2b, 0x2c):
            continue
        tgt = mm.payload_target(it)
        holder = [b for b in ob.blocks if b.get_start() <= it.off < b.get_end()]
        if len(holder) != 1:
            continue                                        # C10's business
        got = holder[0].get_special_ins(it.off)
        exp = ob.obj_at.get(tgt)
        al = 'aligned' if tgt % 4 == 0 else 'misaligned'
        nm = {0x26: 'fill-array-data', 0x2b: 'packed-switch', 0x2c: 'sparse-switch'}[it.op]
        if exp is None:
            continue                                        # the instruction encodes an offset where nothing starts: undefined
        if got is not exp:
            out.append(('special:link:%s:%s' % (nm, al), '%s at %d encodes payload offset %d; get_special_ins(%d) is %s'
                        % (nm, it.off, tgt, it.off, 'None' if got is None else
                           'the object at %r' % [o for o, i in ob.ins if i is got]), {'at': it.off, 'target': tgt}))
    return out


def oracle_c40_xrefs(dx, D):
    """whole-DEX part: every xref offset is an instruction offset of the method it is attributed to.
    D: {id(MethodAnalysis): (MethodAnalysis, set of offsets)}"""
    out = []
    nchecked = [0]

    def chk(meth, off, what):
        ent = D.get(id(meth))
        if ent is None:
            return
        nchecked[0] += 1
        if off not in ent[1]:
            out.append(('xref:' + what, '%s offset %r in %s is not an instruction offset' % (what, off, meth.full_name),
                        {'method': str(meth.full_name), 'offset': off}))
    for ma in dx.get_methods():
        if ma.is_external():
            continue
        for (_c, _m, off) in ma.get_xref_to():
            chk(ma, off, 'method-xref-to')
        for (_c, caller, off) in ma.get_xref_from():
            chk(caller, off, 'method-xref-from')
        for (_c, _f, off) in ma.get_xref_read():
            chk(ma, off, 'method-field-read')
        for (_c, _f, off) in ma.get_xref_write():
            chk(ma, off, 'method-field-write')
        for (_c, off) in ma.get_xref_new_instance():
            chk(ma, off, 'method-new-instance')
        for (_c, off) in ma.get_xref_const_class():
            chk(ma, off, 'method-const-class')
    for fa in dx.get_fields():
        for (_c, meth, off) in fa.get_xref_read(with_offset=True):
            chk(meth, off, 'field-read')
        for (_c, meth, off) in fa.get_xref_write(with_offset=True):
            chk(meth, off, 'field-write')
    for sa in dx.get_strings():
        for (_c, meth, off) in sa.get_xref_from(with_offset=True):
            chk(meth, off, 'string-xref-from')
    for ca in dx.get_classes():
        for (meth, off) in ca.get_xref_new_instance():
            chk(meth, off, 'class-new-instance')
        for (meth, off) in ca.get_xref_const_class():
            chk(meth, off, 'class-const-class')
        for _cls, refs in ca.get_xref_from().items():
            for (_kind, meth, off) in refs:
                chk(meth, off, 'class-xref-from')
    return out, nchecked[0]


ORACLES = {'C10': oracle_c10, 'C11': oracle_c11, 'C12': oracle_c12, 'C40': oracle_c40}


# ---------------------------------------------------------------------------------------------------
# non-triviality rules (measured on the model + what was observed)
# ---------------------------------------------------------------------------------------------------
def nontrivial(prop, mm, ob):
    if prop == 'C10':
        src = set()
        for why in mm.required_leaders().values():
            src |= why
        return len(src - {'entry'}) >= 2
    if prop == 'C11':
        kinds = [mm.kind_of(it) for it in mm.items]
        back = any(mm.kind_of(it) in ('goto', 'if') and 0 <= mm.branch_target(it) <= it.off for it in mm.items) or \
            any(0 <= t <= it.off for it in mm.items if mm.kind_of(it) == 'switch' for t in (mm.switch_targets(it) or ()))
        return 'if' in kinds and ('switch' in kinds or back)
    if prop == 'C12':
        if not mm.tries:
            return False
        other = {}
        for off, why in mm.required_leaders().items():
            other[off] = why - {'try-start'}
        for t in mm.tries:
            if not other.get(t.start) or (t.end < mm.code_len and not other.get(t.end)):
                return True                                 # a try boundary that is not otherwise a leader
        for b in ob.blocks:
            if any(t.start < b.get_start() < t.end for t in mm.tries):
                return True                                 # a block that starts strictly inside a try
        return False
    if prop == 'C40':
        return any(it.kind == 'ins' and it.op in (0x26, 0x2b, 0x2c) for it in mm.items)
    raise ValueError(prop)


# ---------------------------------------------------------------------------------------------------
# generated cases
# ---------------------------------------------------------------------------------------------------
def batch_strategy(prop, tier):
    big = tier != 'quick'
    kw = dict(max_ins=40 if big else 24)
    if prop == 'C40':
        one = st.one_of(CG.abstract_method(misalign=True, want_payload=True, xrefs=True, **kw),
                        CG.abstract_method(misalign=False, want_payload=True, xrefs=True, **kw))
    elif prop == 'C12':
        one = CG.abstract_method(want_try=True, **kw)
    else:
        one = CG.abstract_method(**kw)
    return st.tuples(st.lists(one, min_size=1, max_size=6, unique_by=repr), st.sampled_from(HISTORY_DRAW[prop]))


# which history a generated batch continues with (None first: shrinking drops the history when it is not needed)
HISTORY_DRAW = {'C10': [None, None, 'reanalyse', 'set-instructions'],
                'C11': [None, None, 'reanalyse', 'set-instructions'],
                'C12': [None, None, 'reanalyse', 'reanalyse'],          # every C12 method has tries: no set-instructions
                'C40': [None, None, 'reanalyse', 'set-instructions']}
SHIPPED_REANALYSE_MAX = 100000                  # shipped DEX files up to this size are analysed twice


def analyse(data, xref):
    from androguard.core import dex
    from androguard.core.analysis.analysis import Analysis
    d = dex.DEX(data)
    dx = Analysis(d)
    if xref:
        dx.create_xref()
    return d, dx


def _model_from_bytes(data):
    """{code_off: (DexMethod, MethodModel)} computed with the own DEX reader and the own sweep"""
    out = {}
    for dm in M.parse_dex_methods(data):
        out[dm.code_off] = dm
    return out


def _skip_reason(prop, mm, ob):
    if [(it.off, it.length) for it in mm.items] != ob.tiling():
        # the disassembly itself differs from the reference sweep: that is C02's subject, not ours
        return 'disassembly-differs-from-reference-sweep'
    if prop != 'C40' and any(it.kind == 'ins' and it.op in (0x2b, 0x2c) and
                             (mm.payload_of(it) is None or mm.payload_target(it) % 4) for it in mm.items):
        return 'switch-payload-not-4-byte-aligned'              # DESIGN "S": only C40 looks at those
    return None


def check_dex(ctx, prop, data, case, models=None, only=None, record=True, feats=None, key_prefix=b'', limit=None, stride=1,
              history=None, relayouts=None):
    """Run the oracle of `prop` over the methods of one DEX.
    models: {method name: MethodModel} for generated files (from the assembler's item list); None = derive the
    models from the bytes with the own reader + sweep (shipped files, replay).
    history: None | 'reanalyse' | 'set-instructions' (module docstring); relayouts: {method name: (new insns bytes,
    MethodModel of the new layout)} for 'set-instructions'."""
    try:
        d, dx = analyse(data, xref=(prop == 'C40'))
    except Exception:
        ctx.fail('exception:analysis', case, traceback.format_exc())
        return
    own = _model_from_bytes(data) if models is None else None
    D = {}
    n = taken = 0
    done = []                           # (EncodedMethod, MethodModel, case) of the methods judged in the first analysis
    for m in d.get_encoded_methods():
        if m.get_code() is None:
            continue
        name = m.get_name()
        if only is not None and name not in only and m.get_code_off() not in only:
            continue
        n += 1
        if stride > 1 and n % stride and not (own and own.get(m.get_code_off()) and own[m.get_code_off()].tries):
            continue                    # bounded sample: every stride-th method and every method with a try
        if limit is not None and taken >= limit:
            break
        taken += 1
        mcase = dict(case, method=name, code_off=m.get_code_off())
        try:
            ma = dx.get_method(m)
            ob = Obs(m, ma)
        except Exception:
            ctx.fail('exception:observe', mcase, traceback.format_exc())
            continue
        if models is not None:
            if name not in models:
                continue
            mm = models[name]
        else:
            dm = own.get(m.get_code_off())
            if dm is None:
                raise HarnessError('own DEX reader did not find the code item at %#x' % m.get_code_off())
            try:
                mm = M.MethodModel(M.items_from_code(dm.insns), dm.tries)
            except M.ModelError:
                ctx.count('skipped:own-sweep-rejects-code')
                continue
        why = _skip_reason(prop, mm, ob)
        if why:
            ctx.count('skipped:' + why)
            continue
        D[id(ma)] = (ma, set(ob.offsets))
        res = ORACLES[prop](mm, ob)
        nt = nontrivial(prop, mm, ob)
        done.append((m, mm, mcase))
        if record:
            labels = ['blocks:%d' % min(len(ob.blocks), 12) if len(ob.blocks) < 12 else 'blocks:12+']
            if feats and name in feats:
                labels += sorted(feats[name])
            if mm.tries and prop == 'C12':
                for b in ob.blocks:
                    for t in mm.tries_overlapping(b.get_start(), b.get_end()):
                        labels.append('c12:' + _block_try_shape(b, t))
                labels = sorted(set(labels))
            if history == 'reanalyse' or (history == 'set-instructions' and relayouts and name in relayouts):
                labels.append('history:' + history)
            ctx.case(nontrivial=nt, key=key_prefix + hashlib.blake2b(b''.join(it.raw for it in mm.items) + repr(mm.tries).encode(),
                                                                      digest_size=8).digest(),
                     labels=labels,
                     sample={'method': name, 'code': b''.join(it.raw for it in mm.items)[:64].hex(),
                             'tries': [(t.start, t.end, mm.handler_list(t)) for t in mm.tries][:3],
                             'blocks': [(b.get_start(), b.get_end()) for b in ob.blocks][:12]})
        for (bucket, msg, detail) in res:
            ctx.fail(bucket, dict(mcase, observed=detail), msg)
    if prop == 'C40':
        res, nchecked = oracle_c40_xrefs(dx, D)
        ctx.count('xref_offsets_checked', nchecked)
        for (bucket, msg, detail) in res:
            ctx.fail(bucket, dict(case, observed=detail), msg)
    if history == 'reanalyse':
        history_reanalyse(ctx, prop, d, done)
    elif history == 'set-instructions':
        history_set_instructions(ctx, prop, d, done, relayouts or {})
    elif history is not None:
        raise HarnessError('unknown history %r' % (history,))


def _judge_again(ctx, prop, hist, what, m, ma, mm, mcase, extra=None):
    """the per-method oracle of `prop` on a later analysis `ma` of method m; -> True when it was evaluated"""
    ob = Obs(m, ma)
    why = _skip_reason(prop, mm, ob)
    if why:
        ctx.count('history:%s:skipped:%s' % (hist, why))
        return False
    for (bucket, msg, detail) in ORACLES[prop](mm, ob):
        ctx.fail('history:%s:%s' % (hist, bucket), dict(mcase, history=hist, observed=detail, **(extra or {})),
                 '%s: %s' % (what, msg))
    return True


def history_reanalyse(ctx, prop, d, done):
    """The same parsed DEX object is analysed again; the first analysis was queried by the oracle in between. The
    clauses of the property hold for the blocks of every analysis - in particular the handler blocks (C12), the child /
    father blocks (C11) and the payload objects (C40) a later analysis reports are its own (identity)."""
    if not done:
        return
    from androguard.core.analysis.analysis import Analysis, MethodAnalysis
    try:
        dx2 = Analysis(d)
    except Exception:
        ctx.fail('history:reanalyse:exception:analysis', dict(done[0][2], history='reanalyse'), traceback.format_exc())
        return
    for k, (m, mm, mcase) in enumerate(done):
        try:
            ok = _judge_again(ctx, prop, 'reanalyse', 'second Analysis() of the same DEX object', m, dx2.get_method(m), mm, mcase)
            if ok and k == 0:
                _judge_again(ctx, prop, 'reanalyse', 'third analysis (MethodAnalysis(d, m)) of the same DEX object', m,
                             MethodAnalysis(d, m), mm, mcase)
        except Exception:
            ctx.fail('history:reanalyse:exception:observe', dict(mcase, history='reanalyse'), traceback.format_exc())
            continue
        if ok:
            ctx.count('history:reanalyse:methods')


def history_set_instructions(ctx, prop, d, done, relayouts):
    """After the first analysis the instruction list of a method is replaced through the documented setter
    EncodedMethod.set_instructions() by the disassembly (androguard's LinearSweepAlgorithm) of another layout of the same
    abstract method; a new MethodAnalysis is judged against the model of the new layout."""
    from androguard.core import dex
    from androguard.core.analysis.analysis import MethodAnalysis
    for (m, mm, mcase) in done:
        if mcase['method'] not in relayouts:
            continue
        code2, mm2 = relayouts[mcase['method']]
        if mm.tries or mm2.tries:
            ctx.count('history:set-instructions:skipped:method-has-tries')      # the setter does not move the try table
            continue
        try:
            new = list(dex.LinearSweepAlgorithm.get_instructions(d.get_class_manager(), len(code2) // 2, code2, 0))
            m.set_instructions(new)
            ok = _judge_again(ctx, prop, 'set-instructions', 'MethodAnalysis after set_instructions(another layout)', m,
                              MethodAnalysis(d, m), mm2, mcase, extra={'new_code': code2})
        except Exception:
            ctx.fail('history:set-instructions:exception', dict(mcase, history='set-instructions', new_code=code2),
                     traceback.format_exc())
            continue
        if ok:
            ctx.count('history:set-instructions:methods')


def _relayout_params(am):
    """(nops, move) of the second layout: a function of the abstract method"""
    h = hashlib.blake2b(repr(am).encode(), digest_size=2).digest()
    return 1 + h[0] % 4, bool(h[1] & 1)


def run_generated(ctx, prop, value):
    methods, hist = value
    # Hypothesis re-uses earlier examples: a method already evaluated without mismatch in this shard (with the same
    # history, or - for a case without history - with any) is not analysed again (the oracle is a pure function of it)
    seen = ctx.__dict__.setdefault('_cfg_seen', set())
    fresh = []
    for am in methods:
        k = hashlib.blake2b(repr(am).encode(), digest_size=8).digest()
        if (k, hist) in seen:
            ctx.count('duplicate_methods_skipped')
        else:
            fresh.append((k, am))
    if not fresh:
        return
    methods = [am for _k, am in fresh]
    data, lows, ix = CG.build_dex(methods, with_ix=True)
    models = {}
    feats = {}
    relayouts = {}
    for am, (name, low) in zip(methods, lows):
        models[name] = M.MethodModel(M.items_from_emitted(low.items), M.tries_from_dexgen(low.tries, low.handlers))
        feats[name] = CG.features(am, low)
        if hist == 'set-instructions' and not am['tries']:
            nops, move = _relayout_params(am)
            low2 = CG.assemble_method(CG.relayout(am, nops, move), ix)
            relayouts[name] = (bytes(low2.code), M.MethodModel(M.items_from_emitted(low2.items), []))
    before = sum(ctx.fail_counts.values())
    check_dex(ctx, prop, data, {'dex': data}, models=models, feats=feats, history=hist, relayouts=relayouts)
    if sum(ctx.fail_counts.values()) == before:
        seen.update((k, hist) for k, _am in fresh)
        seen.update((k, None) for k, _am in fresh)


# ---------------------------------------------------------------------------------------------------
# shipped files
# ---------------------------------------------------------------------------------------------------
def shipped_dex_files():
    """[(relative file, entry or None, size)] for every distinct non-emptied DEX under tests/data/APK"""
    repo = os.environ.get('VERIF_REPO', '/repo')
    root = os.path.join(repo, 'tests', 'data', 'APK')
    emptied = set()
    if os.path.exists(EMPTIED):
        emptied = set(open(EMPTIED).read().split('\n'))
    out = []
    seen = set()
    for fn in sorted(os.listdir(root)):
        p = os.path.join(root, fn)
        rel = os.path.join('tests', 'data', 'APK', fn)
        if rel in emptied or not os.path.isfile(p):
            continue
        with open(p, 'rb') as fh:
            head = fh.read(4)
        if head == b'dex\n':
            cands = [(None, open(p, 'rb').read())]
        elif head[:2] == b'PK':
            cands = []
            try:
                z = zipfile.ZipFile(p)
                for n in sorted(z.namelist()):
                    if n.endswith('.dex'):
                        b = z.read(n)
                        if b[:4] == b'dex\n':
                            cands.append((n, b))
            except (zipfile.BadZipFile, NotImplementedError, OSError, RuntimeError):
                continue
        else:
            continue
        for (entry, b) in cands:
            h = hashlib.sha1(b).digest()
            if h in seen:
                continue
            seen.add(h)
            out.append((rel, entry, len(b)))
    return out


def load_shipped(rel, entry):
    repo = os.environ.get('VERIF_REPO', '/repo')
    p = os.path.join(repo, rel)
    if entry is None:
        with open(p, 'rb') as fh:
            return fh.read()
    return zipfile.ZipFile(p).read(entry)


def shards(prop, tier, seed):
    files = shipped_dex_files()
    if not files:
        raise HarnessError('no shipped DEX files found')
    small = [f for f in files if f[2] <= 700000]
    big = [f for f in files if f[2] > 700000]
    sh = []
    if tier == 'quick':
        sh.append(('shipped', [(f[0], f[1]) for f in small if f[2] <= 100000], None, 1))
        sh += [('shipped', [(f[0], f[1])], None, 1) for f in small if f[2] > 100000]
        for k in range(2):
            f = big[(seed * 2 + k) % len(big)]
            sh.append(('shipped', [(f[0], f[1])], 600, 12))
        sh += [('hyp', k) for k in range(14)]
    else:
        sh.append(('shipped', [(f[0], f[1]) for f in small if f[2] <= 100000], None, 1))
        sh += [('shipped', [(f[0], f[1])], None, 1) for f in small if f[2] > 100000]
        sh += [('shipped', [(f[0], f[1])], None, 1) for f in big]
        sh += [('hyp', k) for k in range(32)]
    return sh


def run_shard(ctx, prop, shard):
    if shard[0] == 'hyp':
        n = 400 if ctx.tier == 'quick' else 4000
        hyp_collect(ctx, batch_strategy(prop, ctx.tier), lambda c, v: run_generated(c, prop, v), n, salt=shard[1],
                    shrink_examples=250)
    else:
        _, files, limit, stride = shard
        for (rel, entry) in files:
            data = load_shipped(rel, entry)
            check_dex(ctx, prop, data, {'file': rel, 'entry': entry}, key_prefix=b'shipped', limit=limit, stride=stride,
                      history='reanalyse' if len(data) <= SHIPPED_REANALYSE_MAX else None)
            ctx.label('shipped-dex-files')


def replay(ctx, prop, case):
    if 'dex' in case:
        data = case['dex']
    else:
        data = load_shipped(case['file'], case.get('entry'))
    only = None
    if case.get('code_off') is not None:
        only = {case['code_off']}
    elif case.get('method') is not None:
        only = {case['method']}
    hist = case.get('history')
    relayouts = None
    if hist == 'set-instructions':
        if case.get('method') is None or case.get('new_code') is None:
            raise HarnessError("a 'set-instructions' case needs 'method' and 'new_code'")
        code2 = bytes(case['new_code'])
        relayouts = {case['method']: (code2, M.MethodModel(M.items_from_code(code2), []))}
    check_dex(ctx, prop, data, {k: v for k, v in case.items() if k in ('dex', 'file', 'entry')}, only=only,
              history=hist, relayouts=relayouts)
