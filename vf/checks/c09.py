"""C09 — corrupted or non-DEX input is rejected at the header.

Systematic single-fault injection into small valid generated DEX files:
  * every offset >= 12 x every xor mask 1..255 (files <= 400 bytes) or x the 8 single-bit masks (larger files);
  * header-field faults with the checksum/signature recomputed so that only the field under test is wrong:
    wrong magic (first four bytes / the terminating NUL), wrong endian tag (byte-swapped and arbitrary),
    wrong header size;
  * buffers shorter than the 112-byte header.
Oracle: DEX(buf) raises ValueError (NotImplementedError for the byte-swapped endian tag) AND a harness-side spy on
dex.MapList.__init__ (installed in the check's worker process only) was not entered, i.e. the rejection happened
before any structure was parsed.
"""
import os
import struct
import zlib
from hypothesis import strategies as st
from vf.core.runner import hyp_collect
from vf.gen import dexgen as g
from vf.gen import dexstrat as ds

ds.pin_hypothesis()
SHRINK = not os.environ.get('VERIF_NOSHRINK')     # development switch (sensitivity runs): skip the shrink phase
PROPERTY = 'C09'
LEVEL = 'fault_enumeration'
RULE = ('base files: 10 fixed small generated DEX files (140..1150 bytes) + Hypothesis-drawn class models per seed '
        '(thorough: also the shipped DEX files). faults: every offset >= 12 x every xor mask 1..255 for files <= 400 '
        'bytes, every offset >= 12 x the 8 single-bit masks for larger generated files; magic bytes 0..3 and the NUL at '
        'byte 7 replaced (all 255 wrong values per position + random 4-byte prefixes), endian tag byte-swapped / every '
        'single-byte change / random, header_size = every value 0..0x200 except 0x70 and random 32-bit values, each with '
        'Adler-32 and SHA-1 recomputed; all prefixes of length 0..111. one case = one corrupted buffer; every case is '
        'non-trivial (exactly one fault); distinct = corrupted bytes')
ASSUMPTIONS = ['the base files are valid (each is parsed without error first; vf/gen/dexgen.py is the trusted writer)',
               'the three version digits are not part of the "wrong magic" domain (the parser documents that unknown '
               'versions are parsed with a warning)',
               "a magic starting with 'dey\\n' (optimised DEX) is not counted as wrong: HeaderItem documents that it "
               "accepts 'dex' or 'dey'; such prefixes are excluded from the generator and counted (excluded_dey_magic)",
               '"before any structure is parsed" is observed as: dex.MapList.__init__ is never entered']


def EXHAUSTIVE(tier):
    return True


SPY = {'entered': 0, 'installed': False, 'abort': False}


class MapListEntered(Exception):
    """raised by the spy in abort mode: structure parsing has begun, which is all the oracle needs to know (and letting
    a parser run over a corrupted body can take arbitrarily long)"""


def install_spy():
    """patch MapList.__init__ in this process (harness side; /repo is untouched)"""
    from androguard.core import dex
    if SPY['installed']:
        return
    orig = dex.MapList.__init__

    def spying_init(self, *a, **kw):
        SPY['entered'] += 1
        if SPY['abort']:
            raise MapListEntered()
        return orig(self, *a, **kw)
    dex.MapList.__init__ = spying_init
    SPY['installed'] = True


def attempt(buf, abort=True):
    """-> (outcome, map_list_entered)   outcome: exception type name or 'accepted'.
    abort=True (corrupted inputs): the spy stops the parser the moment MapList.__init__ is entered -> outcome 'parsed'."""
    from androguard.core import dex
    from vf.checks.c05 import cpu_limit, Hang
    install_spy()
    SPY['entered'] = 0
    SPY['abort'] = abort
    try:
        with cpu_limit(60.0):
            dex.DEX(buf)
    except Hang:
        out = 'hang'
    except MapListEntered:
        out = 'parsed'
    except NotImplementedError:
        out = 'NotImplementedError'
    except ValueError as e:
        out = 'ValueError' if type(e) is ValueError else 'ValueError(%s)' % type(e).__name__
    except Exception as e:
        out = type(e).__name__
    else:
        out = 'accepted'
    finally:
        SPY['abort'] = False
    return out, SPY['entered']


MAX_FULL_REPORTS = 20
_SMALLEST = {}


def _worth_reporting(ctx, bucket, dex_len):
    """full ctx.fail report for the first MAX_FULL_REPORTS cases of a bucket in a shard and for every case that is
    smaller than anything reported so far (so a shrunk case is always recorded); otherwise only count the occurrence"""
    key = (id(ctx), bucket)
    best = _SMALLEST.get(key)
    if getattr(ctx, '_shrink_bucket', None) is not None or ctx.fail_counts[bucket] < MAX_FULL_REPORTS or best is None \
            or dex_len < best:
        if best is None or dex_len < best:
            _SMALLEST[key] = dex_len
        return True
    ctx.fail_counts[bucket] += 1
    return False


def _report(ctx, bucket, buf, allowed, fault, region, msg):
    """ctx.fail for the first MAX_FULL_REPORTS cases of a bucket in this shard; afterwards only the occurrence counter is
    advanced (a parser that stops checking the checksum fails ~10^6 cases; serialising each of them is pointless)"""
    if not _worth_reporting(ctx, bucket, len(buf)):
        return
    ctx.fail(bucket, {'dex': bytes(buf), 'allowed': list(allowed), 'fault': fault, 'region': region}, msg)


def judge(ctx, buf, allowed, fault, region):
    """allowed: list of acceptable outcomes ('ValueError' also admits its subclasses as long as the spy is silent)"""
    if allowed == ['accepted']:
        out, entered = attempt(buf, abort=False)
        if out != 'accepted' or entered != 1:
            _report(ctx, 'base-file-rejected:%s' % out.split('(')[0], buf, allowed, fault, region,
                    'valid generated file: DEX() -> %s (MapList entered %d time(s))' % (out, entered))
        return
    out, entered = attempt(buf)
    base = out.split('(')[0]
    if entered:
        _report(ctx, 'parsed-before-reject:%s:%s' % (fault.split(':')[0], region), buf, allowed, fault, region,
                'fault %s (%s): not rejected at the header - MapList.__init__ was entered (structure parsing began); '
                'the property requires %s before any structure is parsed' % (fault, region, ' or '.join(allowed)))
    elif base not in allowed:
        _report(ctx, 'outcome:%s:%s:%s' % (fault.split(':')[0], region, base), buf, allowed, fault, region,
                'fault %s (%s): DEX() -> %s, the property requires %s' % (fault, region, out, ' or '.join(allowed)))


# ------------------------------------------------------------------------------------------ base files
def fixed_files():
    from vf.checks import c05, c07
    out = []
    seen = set()
    for n, df in enumerate(c07.tiny_models() + c07.medium_models() + c05.fixed_models()):
        buf = df.build()
        if buf not in seen:
            seen.add(buf)
            out.append(('fixed%d' % n, buf))
    return out


def regions(buf):
    """-> function offset -> region label, from the header of the valid base file"""
    (map_off,) = struct.unpack_from('<I', buf, 0x34)
    data_off = struct.unpack_from('<I', buf, 0x6c)[0]
    (nmap,) = struct.unpack_from('<I', buf, map_off)
    map_end = map_off + 4 + 12 * nmap

    def region(off):
        if off < 0x70:
            return 'header'
        if map_off <= off < map_end:
            return 'map'
        if off < data_off:
            return 'ids'
        return 'data'
    return region


def require_valid(ctx, name, buf):
    """The unmodified base file must be accepted (and parsed through its map list): otherwise "the corrupted variant is
    rejected" would be vacuous. The base files come from the trusted writer, so a rejection is reported as a violation."""
    out, entered = attempt(buf, abort=False)
    if out != 'accepted' or entered != 1:
        ctx.fail('base-file-rejected:%s' % out.split('(')[0], {'dex': bytes(buf), 'allowed': ['accepted'], 'fault': 'none:' + name,
                                                                 'region': 'none'},
                 'valid generated file %s: DEX() -> %s (MapList entered %d time(s)); a valid file must be accepted, '
                 'otherwise rejecting its corrupted variants means nothing' % (name, out, entered))
        return False
    return True


def xor_faults(ctx, name, buf, lo, hi, masks):
    region = regions(buf)
    b = bytearray(buf)
    swapped = bytes.fromhex('12345678')
    for off in range(lo, hi):
        reg = region(off)
        old = b[off]
        for m in masks:
            b[off] = old ^ m
            allowed = ['NotImplementedError'] if bytes(b[40:44]) == swapped else ['ValueError']
            ctx.case(nontrivial=True, key=bytes(b), labels=('xor', 'region:' + reg),
                     sample={'file': name, 'size': len(buf), 'offset': off, 'xor': m} if (off * 7 + m) % 9973 == 0 else None)
            judge(ctx, bytes(b), allowed, 'xor:off=%d:mask=0x%02x' % (off, m), reg)
        b[off] = old


def header_faults(ctx, name, buf):
    b = bytearray(buf)

    def one(mut, allowed, fault, label):
        c = bytearray(buf)
        mut(c)
        if fault.startswith(('endian', 'header_size')):
            c = bytearray(g.fix_checksums(bytes(c)))       # only the field under test is wrong
        if bytes(c) == bytes(buf):
            return
        ctx.case(nontrivial=True, key=bytes(c), labels=('header-field', label),
                 sample={'file': name, 'fault': fault, 'header': bytes(c[:0x30]).hex()})
        judge(ctx, bytes(c), allowed, fault, 'header')

    # magic: each of the first four bytes -> every other value; the NUL at offset 7 -> every non-zero value
    for pos in (0, 1, 2, 3, 7):
        for v in range(256):
            if v == b[pos]:
                continue
            if pos == 2 and v == ord('y'):
                ctx.count('excluded_dey_magic')            # 'dey\n': documented as accepted (optimised DEX magic)
                continue
            def mut(c, pos=pos, v=v):
                c[pos] = v
            one(mut, ['ValueError'], 'magic:byte%d=0x%02x' % (pos, v), 'magic')
    # endian tag: the byte-swapped constant, every single-byte change, some classic wrong values
    def settag(raw):
        def mut(c):
            c[40:44] = raw
        return mut
    one(settag(bytes.fromhex('12345678')), ['NotImplementedError'], 'endian:swapped', 'endian-swapped')
    for pos in range(4):
        for v in range(256):
            raw = bytearray(bytes.fromhex('78563412'))
            if raw[pos] == v:
                continue
            raw[pos] = v
            one(settag(bytes(raw)), ['ValueError'], 'endian:%s' % bytes(raw).hex(), 'endian-other')
    for raw in ('00000000', 'ffffffff', '78563400', '34127856', '56781234', '12345679'):
        one(settag(bytes.fromhex(raw)), ['ValueError'], 'endian:' + raw, 'endian-other')
    # header size: every value 0..0x200 except 0x70, and a few large ones
    for v in list(range(0, 0x201)) + [0x7000, 0x70000000, 0xffffffff, 0x80000070, len(buf)]:
        if v == 0x70:
            continue
        def mut(c, v=v):
            c[0x24:0x28] = struct.pack('<I', v)
        one(mut, ['ValueError'], 'header_size:0x%x' % v, 'header-size')


def short_buffers(ctx, name, buf):
    for n in range(0, 0x70):
        for variant, data in (('prefix', buf[:n]), ('zeros', b'\0' * n), ('magic+ff', (buf[:8] + b'\xff' * 112)[:n])):
            ctx.case(nontrivial=True, key=bytes(data), labels=('short-buffer',),
                     sample={'file': name, 'length': n, 'variant': variant} if n % 37 == 0 else None)
            judge(ctx, bytes(data), ['ValueError'], 'short:%s:len=%d' % (variant, n), 'short')


# random header faults + random base files (Hypothesis)
def _not_magic(b4):
    return b4 != b'dex\n' and b4 != b'dey\n'


random_faults = st.one_of(
    st.tuples(st.just('magic4'), st.binary(min_size=4, max_size=4).filter(_not_magic)),
    st.tuples(st.just('magic8'), st.binary(min_size=8, max_size=8).filter(lambda b: _not_magic(b[:4]) or b[7] != 0)),
    st.tuples(st.just('endian'), st.binary(min_size=4, max_size=4).filter(
        lambda b: b not in (bytes.fromhex('78563412'), bytes.fromhex('12345678')))),
    st.tuples(st.just('header_size'), st.binary(min_size=4, max_size=4).filter(lambda b: b != struct.pack('<I', 0x70))),
)


def check_random(ctx, v):
    df, faults = v
    buf = df.build()
    if not require_valid(ctx, 'drawn', buf):
        return
    for kind, raw in faults:
        c = bytearray(buf)
        if kind == 'magic4':
            c[0:4] = raw
        elif kind == 'magic8':
            if raw[:4] == b'dey\n':
                ctx.count('excluded_dey_magic')
                continue
            c[0:8] = raw
        elif kind == 'endian':
            c[40:44] = raw
            c = bytearray(g.fix_checksums(bytes(c)))
        else:
            c[0x24:0x28] = raw
            c = bytearray(g.fix_checksums(bytes(c)))
        ctx.case(nontrivial=True, key=bytes(c), labels=('random-header-field', kind),
                 sample={'fault': kind, 'value': raw.hex(), 'size': len(buf)})
        judge(ctx, bytes(c), ['ValueError'], '%s:%s' % (kind, raw.hex()), 'header')


def check_drawn_file(ctx, df):
    buf = df.build()
    if not require_valid(ctx, 'drawn', buf):
        return
    masks = list(range(1, 256)) if len(buf) <= 400 else [1, 2, 4, 8, 16, 32, 64, 128]
    ctx.label('drawn-file:%s' % ('<=400' if len(buf) <= 400 else '>400'))
    xor_faults(ctx, 'drawn:%08x' % zlib.crc32(buf), buf, 12, len(buf), masks)


# ------------------------------------------------------------------------------------------ shipped files (thorough)
def shipped_files():
    import glob
    import os
    repo = os.environ.get('VERIF_REPO', '/repo')
    out = []
    for p in sorted(glob.glob(os.path.join(repo, 'tests', 'data', 'APK', '*.dex'))):
        try:
            data = open(p, 'rb').read()
        except OSError:
            continue
        if len(data) >= 0x70 and data[:4] == b'dex\n':
            out.append((os.path.basename(p), data))
    return out


# ------------------------------------------------------------------------------------------ harness glue
def shards(tier, seed):
    sh = []
    files = fixed_files()
    for i, (name, buf) in enumerate(files):
        if len(buf) <= 400:
            # all masks: split the offsets into chunks of ~100 offsets
            for lo in range(12, len(buf), 96):
                sh.append(('xor', i, lo, min(lo + 96, len(buf)), 'all'))
        else:
            for lo in range(12, len(buf), 600):
                sh.append(('xor', i, lo, min(lo + 600, len(buf)), 'bits'))
        sh.append(('header', i))
    sh.append(('short',))
    sh += [('random', k) for k in range(2 if tier == 'quick' else 8)]
    sh += [('drawn', k) for k in range(4 if tier == 'quick' else 16)]
    if tier == 'thorough':
        for i, (name, data) in enumerate(shipped_files()):
            sh.append(('shipped', i))
    return sh


def run_shard(ctx, shard):
    kind = shard[0]
    if kind in ('xor', 'header'):
        name, buf = fixed_files()[shard[1]]
        if not require_valid(ctx, name, buf):
            ctx.case(nontrivial=False, key=buf, labels=('base-file-rejected',))
            return
        if kind == 'xor':
            masks = list(range(1, 256)) if shard[4] == 'all' else [1, 2, 4, 8, 16, 32, 64, 128]
            xor_faults(ctx, name, buf, shard[2], shard[3], masks)
        else:
            header_faults(ctx, name, buf)
    elif kind == 'short':
        for name, buf in fixed_files()[:6:2] + fixed_files()[-1:]:
            short_buffers(ctx, name, buf)
    elif kind == 'random':
        models = ds.dex_models(max_classes=3, max_fields=2, max_methods=2)
        strat = st.tuples(models, st.lists(random_faults, min_size=8, max_size=8))
        hyp_collect(ctx, strat, check_random, 150 if ctx.tier == 'quick' else 800, salt=shard[1], shrink_examples=60, shrink=SHRINK)
    elif kind == 'drawn':
        models = ds.dex_models(max_classes=2, max_fields=2, max_methods=2, max_name=3, static_values=True,
                               annotations=True, tries=True)
        hyp_collect(ctx, models, check_drawn_file, 5 if ctx.tier == 'quick' else 12, salt=shard[1], shrink=False)
    elif kind == 'shipped':
        name, data = shipped_files()[shard[1]]
        out, entered = attempt(data, abort=False)
        if out != 'accepted' or entered != 1:
            ctx.count('shipped_file_not_accepted_skipped')      # not from the trusted writer: no claim either way
            ctx.case(nontrivial=False, key=data, labels=('shipped-skipped',))
            return
        header_faults(ctx, name, data)
        # a large file: the whole header and id area start byte by byte, then a stride through the rest
        step = max(1, len(data) // 1500)
        offs = list(range(12, min(len(data), 0x200))) + list(range(0x200, len(data), step)) + [len(data) - 1]
        region = regions(data)
        b = bytearray(data)
        for off in offs:
            for m in (0x01, 0x80, 0xff):
                b[off] ^= m
                ctx.case(nontrivial=True, key=(name, off, m, zlib.crc32(b)), labels=('xor-shipped', 'region:' + region(off)))
                judge(ctx, bytes(b), ['ValueError'] if bytes(b[40:44]) != bytes.fromhex('12345678') else ['NotImplementedError'],
                      'xor:off=%d:mask=0x%02x' % (off, m), region(off))
                b[off] ^= m


def replay(ctx, case):
    judge(ctx, case['dex'], case['allowed'], case['fault'], case['region'])
