"""C15 — string and class-usage cross-references are exact.

Generated part: vf.gen.xrefgen models (const-string and const-string/jumbo of a small pool of values — some equal to
class descriptors, member names or '' — loaded from several methods / classes / DEX files and repeatedly in one method;
new-instance and const-class on the own class, other internal classes, classes of another DEX, external classes and
(const-class only) array types; check-cast / instance-of / new-array / filled-new-array as type users that are no xref
sources). Against the abstract model:
  string       dx.strings[v].get_xref_from(with_offset=True) == {(class, method, offset)} of the const-string sites
               loading exactly v; empty for strings that are in a pool but never loaded; every loaded value is present
  new-instance ClassAnalysis.get_xref_new_instance() of class X and MethodAnalysis.get_xref_new_instance() of method M
               list exactly the new-instance sites on X from methods of *other* classes (same-class sites: listed or not,
               both accepted)
  const-class  same for const-class; a site on an array type '[..Lx;' may be attributed to Lx; or omitted (both accepted);
               a site on a primitive array never appears
  class_xref   ClassAnalysis.get_xref_to/from entries of kind REF_NEW_INSTANCE / REF_CLASS_USAGE mirror the above
Payloads in the middle of the code (xrefgen 'mid' sites) put const-string / new-instance / const-class behind a switch or
fill-array-data payload. Large-pool part (one shard, a handful of cases): single-DEX models whose pools are padded with
unreferenced filler entries so that the loaded strings sit on string indices 0x7fff / 0x8000 / .. 0xffff / 0x10000 (jumbo)
and the instantiated / referenced classes on type indices 0x7fff / 0x8000 / .. 0xffff.
Shipped part: the same clauses over shipped DEX/APK files (site list read from the raw code units).
"""
from vf.gen import xrefgen as X
from vf.checks import _xref as A

PROPERTY = 'C15'
LEVEL = 'exploration'
RULE = ('generated: xrefgen model (2..5 classes over 1..4 DEX files; const-string / const-string/jumbo of 10 values, '
        'new-instance / const-class on own, other, other-DEX, external and array types, other type users as noise, '
        'repeated offsets) -> DEX bytes -> Analysis; StringAnalysis / ClassAnalysis / MethodAnalysis xrefs compared with '
        'the model. bodies contain switch / fill-array-data payloads in the middle of the code; one shard analyses a few '
        'single-DEX models padded to > 0x8000 / 0xffff pool entries with the loaded strings and used types on the index '
        'boundaries. shipped: every method of the shipped DEX/APK files. non-trivial = one string value loaded at >=2 '
        'offsets and a new-instance or const-class on another class; distinct = model')
ASSUMPTIONS = ['vf/gen/dexgen.py writes well-formed DEX files; vf/gen/asm.py + dalvik_spec.py give instruction sizes/offsets',
               'same-class new-instance/const-class sites and sites on arrays of classes are accepted listed or omitted',
               'shipped files: pool indices are resolved to names by androguard.core.dex (parser), not by analysis.py']


def _elem(t):
    e = t.lstrip('[')
    return e if e.startswith('L') else None


def check(ctx, exp, dx, vms, case):
    try:
        snap = A.snapshot(dx, callgraph=False)
    except A.AnalysisFailure as e:
        ctx.fail('exception:' + e.where, case, e.tb)
        return
    # ---- strings
    want_s = {}
    for mk, sl in exp['sites'].items():
        for (off, op, kind, tgt) in sl:
            if kind == 'str':
                want_s.setdefault(tgt, set()).add((mk[0], mk, off))
    absent = sorted(v for v in want_s if v not in snap['s'])
    ctx.check(not absent, 'string:absent', lambda: dict(case, clause='string', missing=absent[:6]),
              'loaded strings without StringAnalysis: %r' % (absent[:3],))
    miss, extra, badval = [], [], []
    for v, (val, orig, refs) in snap['s'].items():
        if val != v or orig != v:
            badval.append((v, val, orig))
        w = want_s.get(v, set())
        if w - refs:
            miss.append((v, A.short(w - refs, 4)))
        if refs - w:
            extra.append((v, A.short(refs - w, 4)))
    ctx.check(not badval, 'string:value', lambda: dict(case, clause='string', bad=badval[:4]),
              'StringAnalysis value differs from its key: %r' % (badval[:2],))
    if miss:
        ctx.fail('string:missing', dict(case, clause='string', missing=miss[:6]),
                 'const-string sites missing from the xrefs of the string they load: %r' % (miss[:2],))
    if extra:
        ctx.fail('string:extra', dict(case, clause='string', extra=extra[:6]),
                 'string xrefs that are not const-string sites of that value: %r' % (extra[:2],))
    # ---- class usage
    for kind, ckey, refkind, label in (('new', 'new', 0x22, 'new-instance'), ('cls', 'cc', 0x1c, 'const-class')):
        req_c, all_c = {}, {}       # class -> {(mk, off)}        (class side)
        req_m, all_m = {}, {}       # mk -> {(class, off)}        (method side)
        req_to, all_to = {}, {}     # caller class -> {(target, refkind, mk, off)}
        req_from, all_from = {}, {}  # target class -> {(caller class, refkind, mk, off)}
        for mk, sl in exp['sites'].items():
            for (off, op, k, t) in sl:
                if k != kind:
                    continue
                target = _elem(t)
                if target is None:
                    continue                    # primitive array: nobody to attribute it to
                required = (not t.startswith('[')) and target != mk[0]
                for d, key, val in ((all_c, target, (mk, off)), (all_m, mk, (target, off)),
                                    (all_to, mk[0], (target, refkind, mk, off)), (all_from, target, (mk[0], refkind, mk, off))):
                    d.setdefault(key, set()).add(val)
                if required:
                    for d, key, val in ((req_c, target, (mk, off)), (req_m, mk, (target, off)),
                                        (req_to, mk[0], (target, refkind, mk, off)), (req_from, target, (mk[0], refkind, mk, off))):
                        d.setdefault(key, set()).add(val)
        views = (
            ('class', {(c, e) for c, ent in snap['c'].items() for e in ent[ckey]}, req_c, all_c),
            ('method', {(m, e) for m, ent in snap['m'].items() for e in ent[ckey]}, req_m, all_m),
            ('class_xref_to', {(c, e) for c, ent in snap['c'].items() for e in ent['to'] if e[1] == refkind}, req_to, all_to),
            ('class_xref_from', {(c, e) for c, ent in snap['c'].items() for e in ent['from'] if e[1] == refkind}, req_from, all_from),
        )
        for vname, obs, req, allowed in views:
            reqf = {(k, e) for k, s in req.items() for e in s}
            allf = {(k, e) for k, s in allowed.items() for e in s}
            missing, extra = reqf - obs, obs - allf
            if missing:
                ctx.fail('%s:%s:missing' % (label, vname), dict(case, clause=label, view=vname, missing=A.short(missing)),
                         '%s sites on another class missing from the %s list: %r' % (label, vname, A.short(missing, 3)))
            if extra:
                ctx.fail('%s:%s:extra' % (label, vname), dict(case, clause=label, view=vname, extra=A.short(extra)),
                         '%s %s list has entries that are no %s site of that class: %r' % (label, vname, label, A.short(extra, 3)))
        # classes that are required targets must exist with the right kind
        bad = []
        for cn in req_c:
            got = snap['classes'].get(cn)
            if got is None or got[0] != cn or got[1] != (cn not in exp['internal']):
                bad.append((cn, got))
        ctx.check(not bad, '%s:target-class' % label, lambda: dict(case, clause=label, bad=A.short(bad)),
                  'target class missing or of the wrong kind: %r' % (bad[:3],))


def _labels(model, exp):
    dexof = X.dex_of(model)
    labels = set()
    rep = other = False
    for mk, sl in exp['sites'].items():
        seen = {}
        for (off, op, kind, t) in sl:
            if kind == 'str':
                labels.add('op:%02x' % op)
                seen[t] = seen.get(t, 0) + 1
            elif kind in ('new', 'cls'):
                labels.add('op:%02x' % op)
                if t.startswith('['):
                    labels.add(kind + ':array')
                elif t == mk[0]:
                    labels.add(kind + ':own-class')
                elif t in dexof:
                    other = True
                    labels.add(kind + (':other-class' if dexof[t] == dexof[mk[0]] else ':other-dex'))
                else:
                    other = True
                    labels.add(kind + ':external')
            elif kind in ('cast', 'iof', 'narr', 'farr'):
                labels.add('noise:' + kind)
        if any(n > 1 for n in seen.values()):
            rep = True
    if rep:
        labels.add('string-at->=2-offsets')
    labels.add('ndex:%d' % model['ndex'])
    labels |= X.payload_labels(model, kinds=('str', 'new', 'cls'))
    return sorted(labels), (rep and other)


def run_model(ctx, model, record=True):
    model = X.normalize(model)
    case = {'mode': 'model', 'model': model}
    exp = A.exp_from_model(model)
    built = X.build(model)
    datas = [b for (b, _) in built]
    labels, nt = _labels(model, exp)
    if record:
        if model.get('bulk'):
            labels = sorted(set(labels) | {'large-pool'} |
                            {l for l in X.index_labels(model, [df for (_, df) in built])
                             if l.startswith(('idx:str:', 'idx:new:', 'idx:cls:'))})
        ctx.case(nontrivial=nt, key=repr(model), labels=labels,
                 sample={'ndex': model['ndex'], 'bulk': model.get('bulk'),
                         'sites': [[k[0], k[1], o, '%02x' % op, t] for k, v in exp['sites'].items()
                                   for (o, op, kd, t) in v if kd in ('str', 'new', 'cls')][:8]})
    try:
        dx, vms = A.analyse(datas)
    except A.AnalysisFailure as e:
        ctx.fail('exception:' + e.where, case, e.tb)
        return
    check(ctx, exp, dx, vms, case)


def run_file(ctx, name):
    case = {'mode': 'file', 'name': name}
    datas = A.load_file(name)
    if not datas:
        ctx.count('shipped_without_dex')
        return
    try:
        vms = [A.parse(d) for d in datas]
    except A.AnalysisFailure:
        ctx.count('shipped_unparsable')
        return
    exp = A.exp_from_vms(vms)
    if isinstance(exp, str):
        ctx.count('shipped_skipped:' + exp)
        return
    ns = sum(1 for sl in exp['sites'].values() for s in sl if s[2] == 'str')
    nc = sum(1 for sl in exp['sites'].values() for s in sl if s[2] in ('new', 'cls'))
    ctx.case(nontrivial=ns > 1 and nc > 0, key='file:' + name, labels=['shipped', 'shipped:ndex:%d' % len(vms)],
             sample={'file': name, 'const_string_sites': ns, 'new_instance_const_class_sites': nc})
    ctx.count('shipped_const_string_sites', ns)
    ctx.count('shipped_class_usage_sites', nc)
    try:
        dx = A.analyse_vms(vms)
    except A.AnalysisFailure as e:
        ctx.fail('exception:' + e.where, case, e.tb)
        return
    check(ctx, exp, dx, vms, case)


def _rich(model):
    """large-pool cases are expensive: keep those with >= 2 const-string, >= 1 jumbo and >= 2 new-instance / const-class sites"""
    sites = [s for c in model['classes'] for m in c['methods'] if m['code'] for s in m['body']]
    return (sum(1 for s in sites if s[0] == 'str' and s[1] == 0x1a) >= 2 and any(s[0] == 'str' and s[1] == 0x1b for s in sites)
            and sum(1 for s in sites if s[0] in ('new', 'cls')) >= 2)


def shards(tier, seed):
    n = 12 if tier == 'quick' else 40
    sh = [('large', k) for k in range(1 if tier == 'quick' else 4)]
    return sh + [('gen', k) for k in range(n)] + A.file_shards(tier)


def run_shard(ctx, shard):
    if shard[0] == 'gen':
        n = 800 if ctx.tier == 'quick' else 2500
        A.collect(ctx, X.models(profile='strings'), run_model, n, salt=shard[1])
    elif shard[0] == 'large':
        A.collect(ctx, X.large_models(profile='strings').filter(_rich), run_model, 4 if ctx.tier == 'quick' else 12,
                  salt=200 + shard[1])
    else:
        for name in shard[1]:
            run_file(ctx, name)


def replay(ctx, case):
    if case['mode'] == 'model':
        run_model(ctx, case['model'], record=False)
    else:
        run_file(ctx, case['name'])
