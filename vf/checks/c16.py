"""C16 — multi-DEX analysis is independent of how the code is split and ordered.

A generated class set (vf.gen.xrefgen: invokes, field accesses, strings, class usage between all classes) is written
(a) as one DEX holding every class and (b) split over k = 2..4 DEX files; the split is added to a fresh Analysis in
*every* one of the k! orders (<= 24), create_xref() once. Everything the Analysis reports, by name — classes
(internal/external), methods (key, external?, multiplicity), fields with their read/write lists, strings with their
xrefs, every method- and class-level xref getter with offsets, call-graph nodes and edges — must be identical for every
order and identical to the single-DEX analysis. The reference is the single-DEX analysis (the statement is relational);
that the single-DEX analysis itself equals the abstract model is what C13/C14/C15 check.

Open finding cross-dex-field (same root cause as C14 field-owner, not fixable without changing a pinned test count):
Analysis._create_xref resolves the target of a field instruction only in the DEX of that instruction, so an access to a
field defined in another DEX file is recorded in the single-DEX analysis and dropped in the split one. The expected
effect of exactly that defect is computed from the reference snapshot (`project`): the cross-DEX field accesses are
removed from MethodAnalysis.get_xref_read/write, and the FieldAnalysis objects held by an accessing class of another
DEX disappear from get_fields() / ClassAnalysis.get_fields(). A split snapshot that equals the reference is fine; one
that equals the projection goes to the 'differs:cross-dex-field' bucket (known finding); anything else is reported as a
difference from the projection, i.e. every other part of the snapshot stays strictly compared.
"""
import copy
import itertools
from collections import Counter

from vf.gen import xrefgen as X
from vf.checks import _xref as A

PROPERTY = 'C16'
LEVEL = 'exploration'
RULE = ('xrefgen model with 2..5 classes assigned to k = 2..4 DEX files (every file non-empty); the single-DEX build is '
        'analysed once and the split build once per add order (all k! <= 24 permutations); the by-name snapshots of all '
        'getters must coincide. non-trivial = >=2 DEX files and a method/field/class reference whose target is defined in '
        'another DEX file; distinct = model')
KNOWN = ':cross-dex-field'
ASSUMPTIONS = ['vf/gen/dexgen.py writes well-formed DEX files whose string/type/member pools contain exactly what the '
               'classes of the file need (so the union of the split pools equals the pool of the single file)',
               'the single-DEX analysis is the reference; its agreement with the abstract model is C13/C14/C15']


def _cross(model, exp):
    """kinds of references whose target is defined in another DEX than the referencing method"""
    dexof = X.dex_of(model)
    dm, df = exp['defined_methods'], exp['defined_fields']
    kinds = set()
    for mk, sl in exp['sites'].items():
        for (off, op, kind, t) in sl:
            if kind == 'inv' and t in dm and dexof[t[0]] != dexof[mk[0]]:
                kinds.add('cross-dex:invoke')
            elif kind == 'inv' and t[0] in dexof and t not in dm and dexof[t[0]] != dexof[mk[0]]:
                kinds.add('cross-dex:invoke-undefined-member')
            elif kind == 'fld' and t in df and dexof[t[0]] != dexof[mk[0]]:
                kinds.add('cross-dex:field')
            elif kind in ('new', 'cls') and t in dexof and dexof[t] != dexof[mk[0]]:
                kinds.add('cross-dex:' + kind)
    for c in model['classes']:
        if c['super'] in dexof and dexof[c['super']] != c['dex']:
            kinds.add('cross-dex:superclass')
    return kinds


def _bucket(path):
    top = path.split('[')[0].split(':')[0]
    sub = path.rsplit('.', 1)[1] if ('].' in path) else ''
    return top + (':' + sub if sub else '')


def project(ref, exp, dexof):
    """The reference (single-DEX) snapshot as the cross-dex-field defect would turn it for this split: field accesses
    whose field is defined in another DEX than the accessing class are dropped. Returns (snapshot, number of dropped
    method-side entries)."""
    df = exp['defined_fields']
    p = dict(ref)
    dropped = 0
    p['m'] = {}
    for mk, ent in ref['m'].items():
        ent = dict(ent)
        for key in ('read', 'write'):
            keep = {e for e in ent[key] if not (e[1] in df and mk[0] in dexof and dexof[e[1][0]] != dexof[mk[0]])}
            dropped += len(ent[key]) - len(keep)
            ent[key] = keep
        p['m'][mk] = ent
    fields = Counter()
    for (fk, rd, wr), n in ref['fields'].items():
        holders = {e[0] for e in (rd | wr)}
        # a FieldAnalysis whose entries all come from one class of another DEX than the field's owner is never created
        if fk in df and len(holders) == 1 and next(iter(holders)) != fk[0] and \
                dexof.get(next(iter(holders))) != dexof[fk[0]]:
            continue
        fields[(fk, rd, wr)] += n
    p['fields'] = fields
    p['c'] = {}
    for cn, ent in ref['c'].items():
        ent = dict(ent)
        ent['fields'] = Counter({fk: n for fk, n in ent['fields'].items()
                                 if not (fk in df and fk[0] != cn and cn in dexof and dexof[fk[0]] != dexof[cn])})
        p['c'][cn] = ent
    return p, dropped


def run_model(ctx, model, record=True, orders=None):
    model = X.normalize(model)
    exp = A.exp_from_model(model)
    k = model['ndex']
    kinds = _cross(model, exp)
    if record:
        ctx.case(nontrivial=(k >= 2 and bool(kinds)), key=repr(model),
                 labels=['ndex:%d' % k] + sorted(kinds) + sorted(X.payload_labels(model)),
                 sample={'ndex': k, 'classes': [[c['name'], c['dex']] for c in model['classes']], 'cross': sorted(kinds)})
    case0 = {'mode': 'model', 'model': model}
    single = [b for (b, _) in X.build(model, single=True)]
    split = [b for (b, _) in X.build(model)]
    try:
        dx, _ = A.analyse(single)
        ref = A.snapshot(dx)
    except A.AnalysisFailure as e:
        ctx.fail('exception:single:' + e.where, case0, e.tb)
        return
    proj, ndrop = project(ref, exp, X.dex_of(model))
    has_proj = proj != ref
    perms = list(itertools.permutations(range(k))) if orders is None else [tuple(o) for o in orders]
    ctx.count('orders_analysed', len(perms))
    seen = set()
    for order in perms:
        case = dict(case0, order=list(order))
        try:
            dx, _ = A.analyse(split, order)
            snap = A.snapshot(dx)
        except A.AnalysisFailure as e:
            ctx.fail('exception:split:' + e.where, case, e.tb)
            continue
        if snap == ref:
            continue
        if has_proj and snap == proj:
            ctx.count('defect_model_hits:cross-dex-field')
            if KNOWN not in seen:
                seen.add(KNOWN)
                diffs = A.diff_snap(ref, snap)
                ctx.fail('differs' + KNOWN, dict(case, defect_model_match=True, cross_dex_field_accesses_dropped=ndrop,
                                                 all_paths=[d[0] for d in diffs][:12],
                                                 only_in_single_dex=[d[1] for d in diffs][:4]),
                         'split over %d DEX files (order %r) equals the single-DEX analysis minus the %d field access(es) whose '
                         'field is defined in another DEX file; differing parts: %r' % (k, list(order), ndrop, [d[0] for d in diffs][:4]))
            continue
        base, tag = (proj, ':vs-defect-model') if has_proj else (ref, '')
        diffs = A.diff_snap(base, snap)
        for (path, only_single, only_split) in diffs:
            b = _bucket(path) + tag
            if b in seen:
                continue
            seen.add(b)
            ctx.fail('differs:' + b, dict(case, path=path, only_in_single_dex=only_single, only_in_split=only_split,
                                          defect_model_match=False,
                                          compared_with='single-DEX snapshot minus cross-DEX field accesses' if tag else 'single-DEX snapshot',
                                          all_paths=[d[0] for d in diffs][:12]),
                     'split over %d DEX files added in order %r differs from the single-DEX analysis%s at %s: single-only %r / '
                     'split-only %r' % (k, list(order), ' (beyond the known cross-DEX field defect)' if tag else '', path,
                                        only_single[:2] if isinstance(only_single, list) else only_single,
                                        only_split[:2] if isinstance(only_split, list) else only_split))


def shards(tier, seed):
    return [('gen', k) for k in range(16 if tier == 'quick' else 48)]


def run_shard(ctx, shard):
    n = 140 if ctx.tier == 'quick' else 900
    A.collect(ctx, X.models(min_dex=2), run_model, n, salt=shard[1], budget_s=6.0, skip=lambda b: b.endswith(KNOWN))


def replay(ctx, case):
    run_model(ctx, case['model'], record=False, orders=[case['order']] if 'order' in case else None)


def _m_cross_dex_field(bucket, case, msg):
    """Only the cross-DEX field shape: the split snapshot equals the single-DEX snapshot with exactly the field accesses
    whose field lives in another DEX file removed (and nothing else changed), and only field-related parts differ."""
    if bucket != 'differs' + KNOWN or not case.get('defect_model_match'):
        return False
    if not case.get('cross_dex_field_accesses_dropped'):
        return False
    ok = ('fields', '.fields', '.read', '.write')
    return all(p == 'fields' or p.endswith(ok[1:]) for p in case.get('all_paths') or [])


MATCHERS = {'cross_dex_field': _m_cross_dex_field}
