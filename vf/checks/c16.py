"""C16 — multi-DEX analysis is independent of how the code is split and ordered.

A generated class set (vf.gen.xrefgen: invokes, field accesses, strings, class usage between all classes) is written
(a) as one DEX holding every class and (b) split over k = 2..4 DEX files; the split is added to a fresh Analysis in
*every* one of the k! orders (<= 24), create_xref() once. Everything the Analysis reports, by name — classes
(internal/external), methods (key, external?, multiplicity), fields with their read/write lists, strings with their
xrefs, every method- and class-level xref getter with offsets, call-graph nodes and edges — must be identical for every
order and identical to the single-DEX analysis. The reference is the single-DEX analysis (the statement is relational);
that the single-DEX analysis itself equals the abstract model is what C13/C14/C15 check.
"""
import itertools

from vf.gen import xrefgen as X
from vf.checks import _xref as A

PROPERTY = 'C16'
LEVEL = 'exploration'
RULE = ('xrefgen model with 2..5 classes assigned to k = 2..4 DEX files (every file non-empty); the single-DEX build is '
        'analysed once and the split build once per add order (all k! <= 24 permutations); the by-name snapshots of all '
        'getters must coincide. non-trivial = >=2 DEX files and a method/field/class reference whose target is defined in '
        'another DEX file; distinct = model')
ASSUMPTIONS = ['vf/gen/dexgen.py writes well-formed DEX files whose string/type/member pools contain exactly what the '
               'classes of the file need (so the union of the split pools equals the pool of the single file)',
               'the single-DEX analysis is the reference; its agreement with the abstract model is C13/C14/C15']


def _cross(model, exp):
    """kinds of references whose target is defined in another DEX than the referencing method"""
    dexof = X.dex_of(model)
    dm, df = exp['defined_methods'], exp['defined_fields']
    kinds = set()
    for mk, sl in exp['sites'].items():
        for (off, op, kind, t) in sl:
            if kind == 'inv' and t in dm and dexof[t[0]] != dexof[mk[0]]:
                kinds.add('cross-dex:invoke')
            elif kind == 'inv' and t[0] in dexof and t not in dm and dexof[t[0]] != dexof[mk[0]]:
                kinds.add('cross-dex:invoke-undefined-member')
            elif kind == 'fld' and t in df and dexof[t[0]] != dexof[mk[0]]:
                kinds.add('cross-dex:field')
            elif kind in ('new', 'cls') and t in dexof and dexof[t] != dexof[mk[0]]:
                kinds.add('cross-dex:' + kind)
    for c in model['classes']:
        if c['super'] in dexof and dexof[c['super']] != c['dex']:
            kinds.add('cross-dex:superclass')
    return kinds


def _bucket(path):
    top = path.split('[')[0].split(':')[0]
    sub = path.rsplit('.', 1)[1] if ('].' in path) else ''
    return top + (':' + sub if sub else '')


def run_model(ctx, model, record=True, orders=None):
    model = X.normalize(model)
    exp = A.exp_from_model(model)
    k = model['ndex']
    kinds = _cross(model, exp)
    if record:
        ctx.case(nontrivial=(k >= 2 and bool(kinds)), key=repr(model), labels=['ndex:%d' % k] + sorted(kinds),
                 sample={'ndex': k, 'classes': [[c['name'], c['dex']] for c in model['classes']], 'cross': sorted(kinds)})
    case0 = {'mode': 'model', 'model': model}
    single = [b for (b, _) in X.build(model, single=True)]
    split = [b for (b, _) in X.build(model)]
    try:
        dx, _ = A.analyse(single)
        ref = A.snapshot(dx)
    except A.AnalysisFailure as e:
        ctx.fail('exception:single:' + e.where, case0, e.tb)
        return
    perms = list(itertools.permutations(range(k))) if orders is None else [tuple(o) for o in orders]
    ctx.count('orders_analysed', len(perms))
    seen = set()
    for order in perms:
        case = dict(case0, order=list(order))
        try:
            dx, _ = A.analyse(split, order)
            snap = A.snapshot(dx)
        except A.AnalysisFailure as e:
            ctx.fail('exception:split:' + e.where, case, e.tb)
            continue
        if snap == ref:
            continue
        diffs = A.diff_snap(ref, snap)
        for (path, only_single, only_split) in diffs:
            b = _bucket(path)
            if b in seen:
                continue
            seen.add(b)
            ctx.fail('differs:' + b, dict(case, path=path, only_in_single_dex=only_single, only_in_split=only_split,
                                          all_paths=[d[0] for d in diffs][:12]),
                     'split over %d DEX files added in order %r differs from the single-DEX analysis at %s: single-only %r / '
                     'split-only %r' % (k, list(order), path, only_single[:2] if isinstance(only_single, list) else only_single,
                                        only_split[:2] if isinstance(only_split, list) else only_split))


def shards(tier, seed):
    return [('gen', k) for k in range(16 if tier == 'quick' else 48)]


def run_shard(ctx, shard):
    n = 140 if ctx.tier == 'quick' else 900
    A.collect(ctx, X.models(min_dex=2), run_model, n, salt=shard[1], budget_s=6.0)


def replay(ctx, case):
    run_model(ctx, case['model'], record=False, orders=[case['order']] if 'order' in case else None)
