"""C02 — linear-sweep disassembly recovers the instruction stream and always terminates.

G1 (valid programs): Hypothesis programs of valid instructions (every valid opcode, random operands, 0xfe/0xff with
any register byte), nops and packed-switch / sparse-switch / fill-array-data payloads (aligned with a nop or
deliberately unaligned), assembled by vf.gen.asm. Disassembled through DCode(...).get_instructions() and, for a
sample, through DalvikCode built from a code_item header + insns. Oracle: the (offset, raw bytes, mnemonic) list equals
the assembler's emission list, the lengths add up to the declared size, off_to_pos / get_ins_off agree at every
instruction offset and answer -1 / None elsewhere.

G2 (arbitrary bytes): random buffers of even and odd length, byte-level mutations / truncations / splices of G1
programs, token sequences with payload idents carrying huge or odd sizes; the declared size is exact, larger than the
buffer (truncated file) or smaller. Oracle: the sweep terminates within len(code)/2 + 1 yielded items (plus a 20 s
harness watchdog), and the outcome is either a list whose items all lie inside the code and re-encode to the bytes at
their offset, or InvalidInstruction; any other exception is a violation. In addition, when the reference table
sweep (vf.gen.dalvik_spec.sweep) tiles the code completely with meaningful valid instructions, the buffer *is* a valid
program and the first oracle applies to it. The thorough tier adds a coverage-guided atheris (libFuzzer) campaign
over the same G2 oracle in a child process (skipped with a note when atheris cannot be imported).

Failing cases are reduced by a bounded greedy minimiser (minimise(), bounded by oracle evaluations) instead of
Hypothesis' shrink phase, which is far too slow on the nested program strategies.
"""
import io
import json
import os
import signal
import struct
import traceback

from hypothesis import strategies as st

from vf.core.runner import hyp_collect, Ctx
from vf.gen import asm
from vf.gen import dalvik_spec as ds
from vf.checks.c01 import make_cm

PROPERTY = 'C02'
LEVEL = 'exploration'
RULE = ('G1: Hypothesis programs (0..25 instructions over all 224 valid opcodes with boundary-biased operands + nops + '
        '0..4 payloads: packed-switch size 0..40, sparse-switch 0..40, fill-array-data width 1/2/4/8 size 0..60, aligned or '
        'not) assembled by vf/gen/asm.py; non-trivial = has a payload, or a 0xfe/0xff instruction, or >= 3 formats; '
        'distinct = code bytes. G2: random buffers, mutated/truncated/spliced G1 programs, token sequences with payload '
        'idents and huge/odd sizes, declared size exact/larger/smaller; non-trivial = the sweep yielded >= 1 item; '
        'distinct = (buffer, declared size)')
ASSUMPTIONS = [
    'assembler vf/gen/asm.py and tables vf/gen/dalvik_spec.py (typed from the Dalvik specification; length table '
    'validated by tiling all shipped code items)',
    'termination is decided by a step bound (at most len(code)/2 + 1 yielded items) plus a 20 s per-case harness watchdog '
    '(SIGALRM) that is recorded as a failure, not by timing the call',
    '"inside the code" = inside the buffer handed to the sweep (when the declared size is smaller than the buffer the '
    'statement does not say which one is the code; the weaker reading is used)',
    'full-DEX entry points (EncodedMethod.get_instructions_idx, DEX.disassemble) are thin wrappers over DCode and are '
    'exercised by the checks built on the DEX writer; here DCode, LinearSweepAlgorithm and DalvikCode are driven directly',
]
EXHAUSTIVE = False
WATCHDOG_S = 20


class _Watchdog(BaseException):
    pass


def _alarm(signum, frame):
    raise _Watchdog()


def guarded(fn):
    """Run fn() under the harness watchdog. -> ('ok', value) | ('hang', None); other exceptions propagate."""
    old = signal.signal(signal.SIGALRM, _alarm)
    signal.alarm(WATCHDOG_S)
    try:
        return 'ok', fn()
    except _Watchdog:
        return 'hang', None
    finally:
        signal.alarm(0)
        signal.signal(signal.SIGALRM, old)


def run_sweep(size, buf, bound):
    """Drive LinearSweepAlgorithm step by step. -> (status, items, exc) with status in
    'list' | 'invalid' | 'exception' | 'steps' | 'hang'; items = [(offset, length, name, raw bytes or exception)]."""
    from androguard.core import dex
    cm = make_cm()
    items = []
    state = {}

    def go():
        off = 0
        for ins in dex.LinearSweepAlgorithm.get_instructions(cm, size, bytearray(buf), 0):
            if len(items) >= bound:
                state['steps'] = True
                return
            ln = ins.get_length()
            try:
                raw = bytes(ins.get_raw())
            except Exception as e:      # reported by the caller as a re-encoding failure
                raw = e
            items.append((off, ln, ins.get_name(), raw))
            off += ln
    try:
        status, _ = guarded(go)
    except dex.InvalidInstruction as e:
        return 'invalid', items, e
    except Exception as e:
        where = traceback.extract_tb(e.__traceback__)[-1].name       # innermost function (root-cause bucket)
        return 'exception', items, (e, traceback.format_exc(limit=-4), where)
    if status == 'hang':
        return 'hang', items, None
    if state.get('steps'):
        return 'steps', items, None
    return 'list', items, None


def name_class(name_or_item):
    """coarse class for buckets: payload name, or the format of the mnemonic"""
    n = name_or_item
    if n in ds.BY_NAME:
        op = ds.BY_NAME[n]
        return ds.OPCODES[op].fmt + (':' + n if op in (0x00, 0xfe, 0xff) else '')
    return n


def compare_stream(ctx, prefix, case, code, size, expected):
    """expected: [(offset, raw, name)] that tiles `code`. First oracle of the property."""
    from androguard.core import dex
    status, got, exc = run_sweep(size, code, len(code) // 2 + 1)
    if status == 'hang' or status == 'steps':
        ctx.fail('%s:nontermination' % prefix, case, 'sweep did not finish: %s after %d items' % (status, len(got)))
        return False
    view = [(o, r if isinstance(r, bytes) else repr(r), n) for (o, l, n, r) in got]
    lens_ok = all(isinstance(r, bytes) and l == len(r) for (o, l, n, r) in got)
    if status == 'list' and view == expected and lens_ok:
        return True
    # locate the first divergence
    i = 0
    while i < len(view) and i < len(expected) and view[i] == expected[i] and got[i][1] == len(expected[i][1]):
        i += 1
    at = expected[i] if i < len(expected) else None
    cls = name_class(at[2]) if at else 'extra-items'
    if status == 'invalid' and i == len(view):
        ctx.fail('%s:rejected:%s' % (prefix, cls), case,
                 'valid item #%d %s at offset %d (%s) rejected: %r' % (i, at and at[2], at[0] if at else -1, at and at[1].hex(), exc))
    elif status == 'exception' and i == len(view):
        ctx.fail('%s:exception:%s:%s:%s' % (prefix, type(exc[0]).__name__, exc[2], cls), case, exc[1])
    else:
        g = got[i] if i < len(got) else None
        ctx.fail('%s:mismatch:%s' % (prefix, cls), case,
                 'item #%d: expected %r, got %r (status %s, %d/%d items)' % (
                     i, at and (at[0], at[1].hex(), at[2]),
                     g and (g[0], g[1], g[2], g[3].hex() if isinstance(g[3], bytes) else repr(g[3])),
                     status, len(view), len(expected)))
    return False


def check_program(ctx, items, via_code_item=False):
    """G1 on one program (list of vf.gen.asm items)."""
    from androguard.core import dex
    a = asm.assemble(items)
    code = a.code
    expected = [(e.offset, e.raw, e.name) for e in a.items]
    fmts = {ds.OPCODES[e.op].fmt for e in a.items if e.kind in ('ins', 'pad')}
    n_payload = sum(1 for e in a.items if e.kind == 'payload')
    has_fe_ff = any(e.kind == 'ins' and e.op in (0xfe, 0xff) for e in a.items)
    unaligned = any(e.kind == 'payload' and e.offset % 4 for e in a.items)
    labels = ['g1', 'g1:payloads:%d' % min(n_payload, 3)]
    for cond, lab in ((has_fe_ff, 'g1:has-fe-ff'), (unaligned, 'g1:unaligned-payload'),
                      (any(e.kind == 'pad' for e in a.items), 'g1:alignment-nop'), (not code, 'g1:empty')):
        if cond:
            labels.append(lab)
    for e in a.items:
        if e.kind == 'payload':
            labels.append('g1:' + e.name)
    ctx.case(nontrivial=bool(n_payload or has_fe_ff or len(fmts) >= 3), key=code, labels=labels,
             sample={'code': code.hex()[:160], 'items': [(e.offset, e.name) for e in a.items][:12]})
    case = {'mode': 'g1', 'program': asm.program_to_json(items), 'code': code, 'via_code_item': via_code_item}
    size = len(code) // 2
    if not compare_stream(ctx, 'g1', case, code, size, expected):
        return
    cm = make_cm()
    # --- DCode: list, total length, off_to_pos / get_ins_off --------------------------------------
    try:
        if via_code_item:
            ctx.label('g1:via-DalvikCode')
            hdr = struct.pack('<4H2I', 16, 0, 0, 0, 0, size)
            dc = dex.DalvikCode(io.BytesIO(hdr + code + b'\xee' * 7), cm)
            d = dc.code
            ctx.check(dc.get_insns_size() == size, 'g1:code_item:insns_size', case, 'insns_size %r' % dc.get_insns_size())
        else:
            d = dex.DCode(cm, 0, size, code)
        lst = list(d.get_instructions())
        view = []
        off = 0
        for ins in lst:
            view.append((off, bytes(ins.get_raw()), ins.get_name()))
            off += ins.get_length()
        ctx.check(view == expected, 'g1:dcode:list', case, 'DCode.get_instructions() differs from the sweep result')
        ctx.check(off == len(code), 'g1:dcode:total-length', case, 'lengths add up to %d, code has %d bytes' % (off, len(code)))
        ctx.check(bytes(d.get_raw()) == code, 'g1:dcode:get_raw', case, 'DCode.get_raw() differs from the code')
        starts = {o: k for k, (o, r, n) in enumerate(expected)}
        probe = list(starts)[:6] + list(starts)[-6:]
        for o in probe:
            p = d.off_to_pos(o)
            q = d.get_ins_off(o)
            if p != starts[o] or q is not lst[starts[o]]:
                ctx.fail('g1:dcode:off_to_pos', case, 'offset %d: off_to_pos=%r (expected %d), get_ins_off is item: %r' % (
                    o, p, starts[o], q is lst[starts[o]]))
                break
        for o in [x + 1 for x in probe[:4]] + [x + 2 for x in probe[-4:]] + [len(code), len(code) + 2, -2]:
            if o in starts:
                continue
            p = d.off_to_pos(o)
            q = d.get_ins_off(o)
            if p != -1 or q is not None:
                ctx.fail('g1:dcode:off_to_pos:non-start', case, 'offset %d is no instruction start: off_to_pos=%r get_ins_off=%r' % (o, p, q))
                break
    except Exception:
        ctx.fail('g1:dcode:exception', case, traceback.format_exc(limit=6))


def reference_view(code):
    """If the table-driven sweep tiles `code` with meaningful valid instructions -> [(offset, raw, name)], else None."""
    if len(code) % 2:
        return None
    try:
        items = ds.sweep(code)
    except ds.SpecError:
        return None
    out = []
    for it in items:
        raw = code[2 * it.off: 2 * (it.off + it.units)]
        if it.kind == 'ins':
            _, fields = ds.decode_fields(raw)
            if fields.get('ZZ', 0) or ds.operands(it.op, fields) is None:
                return None
        out.append((2 * it.off, raw, it.name))
    return out


def check_buffer(ctx, buf, size):
    """G2 on one buffer with a declared size (in code units)."""
    buf = bytes(buf)
    code = buf[:min(len(buf), 2 * size)]
    case = {'mode': 'g2', 'buf': buf, 'size': size}
    status, got, exc = run_sweep(size, buf, len(buf) // 2 + 1)
    decl = 'exact' if 2 * size == len(buf) else ('larger' if 2 * size > len(buf) else 'smaller')
    labels = ['g2', 'g2:outcome:' + status, 'g2:declared-' + decl, 'g2:odd-length' if len(buf) % 2 else 'g2:even-length']
    ref = reference_view(code)
    if ref is not None:
        labels.append('g2:reference-tiles')
    ctx.case(nontrivial=len(got) >= 1, key=(buf, size), labels=labels,
             sample={'buf': buf.hex()[:120], 'size': size, 'outcome': status, 'items': len(got)})
    if status in ('hang', 'steps'):
        ctx.fail('g2:nontermination', case, '%s after %d items on a %d-byte code' % (status, len(got), len(code)))
        return
    if status == 'exception':
        ctx.fail('g2:exception:%s:%s' % (type(exc[0]).__name__, exc[2]), case, exc[1])
    # every yielded item (also those before an InvalidInstruction) lies inside the code and re-encodes to its bytes.
    # "The code" is the declared code size ("consumes exactly the declared code size"): when the caller declares fewer
    # code units than the buffer holds, an item straddling the declared end is not inside the code.
    for (off, ln, name, raw) in got:
        ncls = name if name.endswith('-payload') else name_class(name).split(':')[0]
        if off + ln > len(code) or ln <= 0:
            ctx.fail('g2:past-end:%s:declared-%s' % (ncls, decl), case,
                     '%s at offset %d has get_length()=%d, the declared code has %d bytes (buffer %d)' % (name, off, ln, len(code), len(buf)))
            break
        if not isinstance(raw, bytes):
            ctx.fail('g2:raw-exception:%s' % ncls, case, '%s at offset %d: get_raw() raised %r' % (name, off, raw))
            break
        if raw != buf[off:off + ln]:
            ctx.fail('g2:raw:%s' % ncls, case, '%s at offset %d: get_raw()=%s, code has %s' % (name, off, raw.hex()[:80], buf[off:off + ln].hex()[:80]))
            break
    if ref is not None and status != 'exception':
        compare_stream(ctx, 'g2ref', case, code, len(code) // 2, ref)


# ---------------------------------------------------------------------------------------------------------
# strategies
# ---------------------------------------------------------------------------------------------------------
def g1_programs():
    # all valid opcodes uniformly, with 0xfe/0xff (the opcodes whose high byte the sweep used to misread) boosted
    return asm.program_with_payloads(max_items=25, max_payloads=4, boost=[0xfe, 0xff])


def _u16(v):
    return struct.pack('<H', v & 0xffff)


def _u32(v):
    return struct.pack('<I', v & 0xffffffff)


SIZES16 = [0, 1, 2, 3, 4, 5, 7, 8, 0x7f, 0x80, 0xff, 0x100, 0x7fff, 0x8000, 0xfffe, 0xffff]
SIZES32 = SIZES16 + [0x10000, 0x7fffffff, 0x80000000, 0xfffffffe, 0xffffffff, 6, 9, 10]


def pick(*alts):
    """uniform choice between alternatives. (st.one_of flattens nested one_of strategies -- `ins` is a one_of over 224
    opcodes -- so the payload alternatives would otherwise be drawn ~1% of the time.)"""
    return st.integers(0, len(alts) - 1).flatmap(lambda i: alts[i])


def tokens():
    """byte-string tokens: payload headers with huge/odd sizes, whole small payloads, valid instructions, noise"""
    packed_hdr = st.builds(lambda n, k: _u16(0x0100) + _u16(n) + _u32(k), st.sampled_from(SIZES16), st.integers(0, 0xffffffff))
    sparse_hdr = st.builds(lambda n: _u16(0x0200) + _u16(n), st.sampled_from(SIZES16))
    fill_hdr = st.builds(lambda w, n: _u16(0x0300) + _u16(w) + _u32(n),
                         st.one_of(st.sampled_from([0, 1, 2, 3, 4, 8, 0xffff]), st.integers(0, 0xffff)), st.sampled_from(SIZES32))
    ins = asm.any_instruction(wellformed=False).map(lambda i: ds.encode(i.op, **i.fields))
    pseudo = st.builds(lambda hi, lo: bytes([lo, hi]), st.integers(0, 255), st.sampled_from([0x00, 0xff, 0xfe, 0x3e, 0x73, 0xe3, 0xf9]))
    return pick(packed_hdr, sparse_hdr, fill_hdr, ins, pseudo, st.binary(min_size=1, max_size=9),
                st.sampled_from([b'\x00\x00', b'\x00\x00\x00\x00', b'\x0e\x00', b'\xff', b'\x00']))


def mutate(code, ops):
    b = bytearray(code)
    for (kind, pos, val) in ops:
        if kind == 'trunc':
            del b[pos % (len(b) + 1):]
        elif not b:
            b.extend(val)
        elif kind == 'flip':
            b[pos % len(b)] ^= (val[0] or 1)
        elif kind == 'set':
            p = pos % len(b)
            b[p:p + len(val)] = val
        elif kind == 'ins':
            p = pos % (len(b) + 1)
            b[p:p] = val
        elif kind == 'del':
            p = pos % len(b)
            del b[p:p + len(val)]
    return bytes(b)


def valid_items():
    """byte strings of single well-formed items (cheap: no assembler round)"""
    ins = asm.any_instruction(wellformed=True).map(lambda i: ds.encode(i.op, **i.fields))
    i32 = st.integers(-(1 << 31), (1 << 31) - 1)
    packed = st.tuples(i32, st.lists(i32, max_size=6)).map(
        lambda t: struct.pack('<HHi', 0x0100, len(t[1]), t[0]) + b''.join(struct.pack('<i', x) for x in t[1]))
    sparse = st.lists(st.tuples(i32, i32), max_size=6).map(
        lambda l: struct.pack('<HH', 0x0200, len(l)) + b''.join(struct.pack('<i', k) for k, _ in sorted(l)) +
        b''.join(struct.pack('<i', t) for _, t in sorted(l)))
    fill = st.tuples(st.sampled_from([1, 2, 4, 8]), st.integers(0, 12), st.binary(min_size=96, max_size=96)).map(
        lambda t: struct.pack('<HHI', 0x0300, t[0], t[1]) + t[2][:t[0] * t[1]] +
        ((b'\x00' if t[2][-1] & 1 else t[2][-2:-1]) if (t[0] * t[1]) % 2 else b''))     # alignment byte: zero or arbitrary
    return pick(ins, ins, ins, st.just(b'\x00\x00'), packed, sparse, fill)


def g2_buffers():
    mut_op = st.tuples(st.sampled_from(['trunc', 'flip', 'set', 'ins', 'del']), st.integers(0, 1 << 16), st.binary(min_size=1, max_size=4))
    valid_code = st.lists(valid_items(), max_size=8).map(b''.join)
    mutated = st.tuples(valid_code, st.lists(mut_op, min_size=1, max_size=3)).map(lambda t: mutate(t[0], t[1]))
    spliced = st.tuples(valid_code, valid_code, st.integers(0, 1 << 16), st.integers(0, 1 << 16)).map(
        lambda t: t[0][:t[2] % (len(t[0]) + 1)] + t[1][t[3] % (len(t[1]) + 1):])
    tok = st.lists(tokens(), min_size=1, max_size=8).map(b''.join)

    # history shape: a well-formed item, and later in the same code a copy of it with one byte changed (what a decoder
    # that remembers earlier work per opcode / per first unit would get wrong, e.g. `0e00 ... 0e01`)
    def dup(t):
        items, idx, pos, val, gap = t
        it = bytearray(items[idx % len(items)])
        it[pos % len(it)] ^= (val or 1)
        return b''.join(items) + b''.join(gap) + bytes(it)
    dup_mut = st.tuples(st.lists(valid_items(), min_size=1, max_size=5), st.integers(0, 15), st.integers(0, 1),
                        st.integers(0, 255), st.lists(valid_items(), max_size=2)).map(dup)
    buf = st.one_of(st.binary(max_size=64), tok, tok, mutated, mutated, spliced, valid_code, dup_mut)

    def with_size(t):
        b, mode, r = t
        exact = (len(b) + 1) // 2          # odd buffer: the declared size covers the half unit (truncated file)
        if mode < 5:
            return b, exact
        if mode < 7:
            return b, r % (exact + 1)      # declared smaller
        if mode < 9:
            return b, exact + r % 5        # declared (slightly) larger: truncated code
        return b, (exact + 0x1000, 0x7fffffff)[r % 2]
    return st.tuples(buf, st.integers(0, 9), st.integers(0, 1 << 16)).map(with_size)


# ---------------------------------------------------------------------------------------------------------
FIXED_G2 = [
    (bytes.fromhex('ff010000'), 2),                                     # const-method-type v1, proto@0
    (bytes.fromhex('ffab'), 1), (bytes.fromhex('0000ffab'), 2),
    (bytes.fromhex('000304000a0000000102030405060708'), 8),             # fill-array-data: 10 x 4 declared, 8 bytes present
    (bytes.fromhex('00010a00050000000100000002000000'), 8),             # packed-switch: 10 targets declared, 2 present
    (bytes.fromhex('00020a00050000000100000002000000'), 8),             # sparse-switch truncated
    (bytes.fromhex('000000'), 2), (bytes.fromhex('00'), 1), (b'', 0), (b'', 5),
    (bytes.fromhex('0004'), 1), (bytes.fromhex('0001'), 1), (bytes.fromhex('0003'), 1), (bytes.fromhex('00030100'), 2),
    (bytes.fromhex('1801ffff'), 5), (bytes.fromhex('1801ffff'), 2),
    (bytes.fromhex('0000120118010000000000000000'), 3),                 # const-wide crossing a smaller declared size
    (bytes.fromhex('0e000e01'), 2), (bytes.fromhex('0e0000000e7f'), 3),  # well-formed 10x, then the same opcode with a non-zero high byte
]


def shards(tier, seed):
    sh = [('fixed',)] + [('mix', k) for k in range(16)]
    if tier == 'thorough':
        sh.insert(0, ('atheris', int(os.environ.get('VERIF_ATHERIS_S', '300'))))     # longest shard first
    return sh


def run_shard(ctx, shard):
    if shard[0] == 'atheris':
        return run_atheris(ctx, shard[1])
    if shard[0] == 'fixed':
        for buf, size in FIXED_G2:
            check_buffer(ctx, buf, size)
        # every valid opcode once, alone and followed by each payload kind (deterministic G1 coverage)
        for op in ds.VALID_OPCODES:
            f = ds.fmt_of(op)
            fields = {fld.name: (1 if fld.role != 'zero' else 0) for fld in f.fields[1:]}
            aa_role = {x.name: x.role for x in f.fields}.get('AA')
            for aa in ([0, 1, 0xab, 0xff] if aa_role in ('reg', 'cnt') else [None]):
                if aa is not None:
                    fields['AA'] = aa
                prog = [asm.Ins(op, **fields), asm.Ins('return-void'), asm.Label('p'),
                        asm.PackedSwitchPayload(3, [4, 5]), asm.FillArrayPayload(1, b'abc'), asm.SparseSwitchPayload([1], [2])]
                check_program(ctx, prog, via_code_item=(op % 2 == 0))
        return
    k = shard[1]
    quick = ctx.tier == 'quick'
    n1 = 190 if quick else 3200
    n2 = 1300 if quick else 12000

    def f1(c, v):
        check_program(c, v[0], via_code_item=v[1])
    before = set(ctx.failures)
    hyp_collect(ctx, st.tuples(g1_programs(), st.booleans()), f1, n1, salt=k, shrink=False)

    def f2(c, v):
        check_buffer(c, v[0], v[1])
    hyp_collect(ctx, g2_buffers(), f2, n2, salt=100 + k, shrink=False)
    for bucket in [b for b in ctx.failures if b not in before]:
        minimise(ctx, bucket)


def _fails_in(ctx, bucket, fn):
    sub = Ctx(ctx.prop, ctx.tier, ctx.seed, ctx.shard_index)
    fn(sub)
    return bucket in sub.failures


def minimise(ctx, bucket, budget=250):
    """Bounded greedy reduction (by oracle evaluations, not by time) of the smallest recorded case of a bucket;
    the reduced case is recorded under the same bucket. Replaces Hypothesis' shrink phase, which is far too slow
    on the nested program strategies."""
    from vf.core.runner import unhex
    case = unhex(ctx.failures[bucket][0][1])
    ev, nt, fc = ctx.evaluations, set(ctx.nontrivial), ctx.fail_counts[bucket]
    used = [0]

    def spend():
        used[0] += 1
        return used[0] <= budget
    if case['mode'] == 'g2':
        buf, size = bytes(case['buf']), case['size']
        rel = size - (len(buf) + 1) // 2           # keep the declared size relative to the buffer length

        def test(b):
            return _fails_in(ctx, bucket, lambda c: check_buffer(c, b, max(0, (len(b) + 1) // 2 + rel)))
        chunk = max(1, len(buf) // 2)
        while chunk >= 1:
            i = 0
            while i < len(buf):
                cand = buf[:i] + buf[i + chunk:]
                if not spend():
                    break
                if test(cand):
                    buf = cand
                else:
                    i += chunk
            if used[0] > budget:
                break
            chunk //= 2
        check_buffer(ctx, buf, max(0, (len(buf) + 1) // 2 + rel))
    else:
        items = asm.program_from_json(case['program'])
        via = bool(case.get('via_code_item'))

        def test(its):
            try:
                return _fails_in(ctx, bucket, lambda c: check_program(c, its, via))
            except asm.AsmError:
                return False
        i = 0
        while i < len(items) and spend():
            cand = items[:i] + items[i + 1:]
            if test(cand):
                items = cand
            else:
                i += 1
        check_program(ctx, items, via)
    ctx.evaluations, ctx.nontrivial = ev, nt
    ctx.fail_counts[bucket] = fc


def replay(ctx, case):
    if case['mode'] == 'g1':
        check_program(ctx, asm.program_from_json(case['program']), via_code_item=bool(case.get('via_code_item')))
    else:
        check_buffer(ctx, case['buf'], case['size'])


# ---------------------------------------------------------------------------------------------------------
# thorough tier: coverage-guided campaign (atheris / libFuzzer) over G2, in a child process
# ---------------------------------------------------------------------------------------------------------
def _size_for(mode, n):
    exact = (n + 1) // 2
    return (exact, exact, exact, exact + 1, exact + 3, max(0, exact - 1), exact // 2, 0x7fffffff)[mode % 8]


def run_atheris(ctx, seconds):
    """Runs `python -m vf.checks.c02 <seconds> <dir> <seed>` (libFuzzer, wall-clock cap = exploration budget: cap
    reached means "held on what was explored"). Inputs on which the G2 oracle failed are written by the child and
    re-evaluated here through the normal reporting path. Skipped cleanly when atheris is not importable."""
    import subprocess
    import sys
    import tempfile
    try:
        import atheris  # noqa: F401
    except Exception:
        ctx.label('atheris:unavailable')
        ctx.notes.append('atheris not importable: coverage-guided campaign skipped')
        return
    with tempfile.TemporaryDirectory(prefix='vf_c02_atheris_') as d:
        os.mkdir(os.path.join(d, 'corpus'))
        os.mkdir(os.path.join(d, 'found'))
        seeds = [bytes([0]) + b for b, _ in FIXED_G2 if b]
        seeds.append(bytes([0]) + asm.assemble([asm.Ins('packed-switch', AA=1, target='p'), asm.Ins('return-void'), asm.Label('p'),
                                                asm.PackedSwitchPayload(1, [3, 3])]).code)
        for i, b in enumerate(seeds):
            with open(os.path.join(d, 'corpus', 'seed%02d' % i), 'wb') as f:
                f.write(b)
        try:
            r = subprocess.run([sys.executable, '-m', 'vf.checks.c02', str(seconds), d, str(ctx.seed)],
                               stdout=subprocess.PIPE, stderr=subprocess.STDOUT, timeout=seconds + 900)      # generous: start-up instrumentation is slow on a busy machine
            tail = r.stdout.decode('utf-8', 'replace')[-600:]
        except subprocess.TimeoutExpired:
            ctx.notes.append('atheris child exceeded its wall-clock cap and was stopped')
            tail = ''
        execs = 0
        if os.path.exists(os.path.join(d, 'execs')):
            execs = int(open(os.path.join(d, 'execs')).read() or 0)
        ctx.count('atheris_execs', execs)
        ctx.label('atheris:ran')
        if execs == 0:
            ctx.notes.append('atheris campaign produced no executions: ' + tail.replace('\n', ' | ')[-300:])
        for fn in sorted(os.listdir(os.path.join(d, 'found'))):
            c = json.load(open(os.path.join(d, 'found', fn)))
            check_buffer(ctx, bytes.fromhex(c['buf']), c['size'])


def _atheris_child(argv):
    seconds, d, seed = int(argv[0]), argv[1], int(argv[2])
    import atexit
    import hashlib
    import sys
    import atheris
    # coverage feedback from the disassembler module only (instrumenting the resource tables it imports is slow)
    skip = ['androguard.core.apk', 'androguard.core.axml', 'androguard.core.axml.types', 'androguard.core.resources',
            'androguard.core.resources.public', 'androguard.core.api_specific_resources', 'androguard.core.bytecode',
            'androguard.core.androconf', 'androguard.util', 'androguard.core.mutf8', 'androguard.core.dex.dex_types']
    with atheris.instrument_imports(include=['androguard'], exclude=skip):
        from androguard.core import dex  # noqa: F401
    from vf.core import runner
    runner._quiet()
    n = [0]

    def flush():
        with open(os.path.join(d, 'execs'), 'w') as f:
            f.write(str(n[0]))
    atexit.register(flush)

    def target(data):
        n[0] += 1
        if not data:
            return
        buf = bytes(data[1:])
        size = _size_for(data[0], len(buf))
        sub = Ctx(PROPERTY, 'thorough', seed, 0)
        check_buffer(sub, buf, size)
        for bucket in sub.failures:
            path = os.path.join(d, 'found', hashlib.sha1(bucket.encode()).hexdigest()[:12] + '.json')
            if not os.path.exists(path) or len(buf) < json.load(open(path))['n']:
                with open(path, 'w') as f:
                    json.dump({'buf': buf.hex(), 'size': size, 'bucket': bucket, 'n': len(buf)}, f)
        if n[0] % 2000 == 0:
            flush()
    atheris.Setup([sys.argv[0], '-max_total_time=%d' % seconds, '-max_len=96', '-seed=%d' % (seed + 1), '-verbosity=0',
                   '-print_final_stats=0', os.path.join(d, 'corpus')], target)
    atheris.Fuzz()


if __name__ == '__main__':
    import sys
    _atheris_child(sys.argv[1:])
