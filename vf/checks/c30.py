"""C30 — locale qualifiers round-trip through the configuration encoding.

For each (language, region): the reference model (vf/model/locale.py, AOSP packLanguageOrRegion) packs the four
language/country bytes into a ResTable_config; androguard parses that config and must report exactly the string
that was encoded (`lang` or `lang-rREGION`); encoding that string again (ARSCResTableConfig(None, locale=...)) must
give the same 32-bit locale word, the same reported string and a configuration equal to the parsed one.
The space is finite and enumerated, sharded over processes.
"""
import io
import random
import traceback
from vf.core.runner import HarnessError
from vf.model import locale as M

PROPERTY = 'C30'
LEVEL = 'exploration'
RULE = ('enumeration. quick: all 676 two-letter languages x (no region + 48 sampled two-character regions + 12 sampled '
        'three-digit regions), all 1296 two-character [A-Z0-9] regions and all 1000 three-digit regions x 6 sampled '
        'languages (two- and three-letter), all 17576 packed three-letter languages x (no region + 2 sampled regions), the '
        'default locale. thorough: all 676 x (1 + 1296 + 1000) pairs, all 17576 three-letter languages x (no region + 24 '
        'sampled regions). The seed only selects the samples. non-trivial = non-default locale; distinct = (language, region, '
        'config size)')
ASSUMPTIONS = ['vf/model/locale.py transcribes AOSP ResourceTypes.cpp packLanguageOrRegion (bases "a" and "0") and the '
               'ResTable_config field layout; it is self-tested on the AOSP unit-test vectors eng, tgp and 419',
               'the textual form is <language> or <language>-r<REGION> (androguard/aapt qualifier form)',
               'the default locale is reported as the documented "\\x00\\x00"',
               'three-letter alphabetic regions do not fit the 5-bit packing with base "0" and are not part of the domain']


def EXHAUSTIVE(tier):
    return tier == 'thorough'


_SIZES = (28, 36, 48, 52, 64)


def _selftest():
    v = [(M.pack_language_or_region('eng', M.LANG_BASE), b'\x99\xa4'),
         (M.pack_language_or_region('tgp', M.LANG_BASE), b'\xbc\xd3'),
         (M.pack_language_or_region('419', M.REGION_BASE), b'\xa4\x24'),
         (M.pack_language_or_region('en', M.LANG_BASE), b'en'),
         (M.pack_language_or_region('US', M.REGION_BASE), b'US')]
    for got, exp in v:
        if got != exp:
            raise HarnessError('locale model self-test failed: %r != %r' % (got, exp))


def classify(language, region):
    return 'lang%d:region%s' % (len(language), ('3' if len(region) == 3 else '2' if region else '-'))


def check_locale(ctx, language, region, size=28, fill=0):
    from androguard.core.axml import ARSCResTableConfig
    b4, word = M.pack_locale(language, region)
    default = (language == '' and region == '')
    exp = '\x00\x00' if default else M.locale_string(language, region)
    # bucket class: coarse (one per encoding form); the histogram labels are finer
    cls = 'default' if default else 'packed3' if 3 in (len(language), len(region)) else 'plain2'
    ctx.case(nontrivial=not default, key=(language, region, size, fill),
             labels=('default' if default else classify(language, region), 'size%d' % size),
             sample={'language': language, 'region': region, 'bytes': b4.hex(), 'locale_word': word, 'expected': exp})
    case = {'language': language, 'region': region, 'size': size, 'fill': fill}
    raw = M.config_bytes(b4, size, fill)
    # 1. decode
    try:
        buff = io.BytesIO(raw + b'\xee' * 8)
        cfg = ARSCResTableConfig(buff)
        consumed = buff.tell()
        got = cfg.get_language_and_region()
        got_word = cfg.locale
    except Exception as e:
        ctx.fail('exception:%s:decode:%s' % (type(e).__name__, cls), case, traceback.format_exc())
        return
    ctx.check(consumed == size, 'decode:consumed', case, 'config of size %d: %d bytes consumed' % (size, consumed))
    ctx.check(got_word == word, 'decode:word:' + cls, case, 'parsed locale word %#x, bytes are %s' % (got_word, b4.hex()))
    ok = ctx.check(got == exp, 'decode:string:' + cls, lambda: dict(case, observed=got, expected=exp),
                   'bytes %s (%r) reported as %r' % (b4.hex(), exp, got))
    # 2. encode the reported string again (when it is the right one; otherwise encode the expected string so that the
    #    encoder is still exercised)
    s = got if ok else exp
    try:
        cfg2 = ARSCResTableConfig(None, locale=s)
        word2 = cfg2.locale
        back = cfg2.get_language_and_region()
    except Exception as e:
        ctx.fail('exception:%s:encode:%s' % (type(e).__name__, cls), case, traceback.format_exc())
        return
    ctx.check(word2 == word, 'encode:word:' + cls, lambda: dict(case, string=s, observed_word=word2, expected_word=word),
              'ARSCResTableConfig(locale=%r).locale = %#010x, the encoding of that locale is %#010x' % (s, word2, word))
    ctx.check(back == exp, 'encode:string:' + cls, lambda: dict(case, string=s, observed=back),
              'ARSCResTableConfig(locale=%r) reports %r' % (s, back))
    if fill == 0:
        # "encoding that string again gives the same configuration"
        try:
            same = (cfg2 == cfg) and (hash(cfg2) == hash(cfg))
        except Exception as e:
            ctx.fail('exception:%s:compare:%s' % (type(e).__name__, cls), case, traceback.format_exc())
            return
        ctx.check(same, 'encode:config-equal:' + cls, case,
                  'config built from %r differs from the parsed one: %r vs %r' % (s, cfg2, cfg))


def check_history(ctx, locales):
    """history: one configuration object is re-encoded several times (`set_language_and_region` is what the constructor
    uses for its locale= argument): after each step it must be the configuration a fresh object gets for that string."""
    from androguard.core.axml import ARSCResTableConfig
    case = {'mode': 'history', 'locales': [list(l) for l in locales]}
    strs = ['\x00\x00' if (l == '' and r == '') else M.locale_string(l, r) for l, r in locales]
    ctx.case(nontrivial=len(locales) >= 2, key=('history', tuple(strs)), labels=('history:n%d' % len(locales),),
             sample={'re-encoded in turn': strs})
    try:
        cfg = ARSCResTableConfig(None, locale=strs[0])
        for k, s in enumerate(strs):
            if k:
                cfg.set_language_and_region(s)
            fresh = ARSCResTableConfig(None, locale=s)
            word = M.pack_locale(*locales[k])[1]
            got = (cfg.locale, cfg.get_language_and_region(), cfg == fresh, cfg.is_default())
            want = (word, s, True, fresh.is_default())
            if got != want:
                ctx.fail('history:step%d' % min(k, 2), dict(case, step=k, observed=list(got), expected=list(want)),
                         'after encoding %r in turn into one configuration: (word, string, equals fresh, is_default) = %r, expected %r'
                         % (strs[:k + 1], got, want))
                return
    except Exception as e:
        ctx.fail('exception:%s:history' % type(e).__name__, case, traceback.format_exc())


def _plan(tier, seed):
    """-> list of work items (kind, index...) ; each is cheap to expand in the worker"""
    sh = [('misc',), ('history',)]
    if tier == 'quick':
        sh += [('l2', k, 8) for k in range(8)]          # two-letter languages, slice k of 8, sampled regions
        sh += [('regions', k, 4) for k in range(4)]     # all regions x sampled languages
        sh += [('l3', k, 8) for k in range(8)]          # three-letter languages, sampled regions
    else:
        sh += [('l2full', k, 52) for k in range(52)]
        sh += [('l3', k, 26) for k in range(26)]
    return sh


def shards(tier, seed):
    return _plan(tier, seed)


def run_shard(ctx, shard):
    _selftest()
    rnd = random.Random(ctx.seed * 7919 + 13)            # the same samples in every shard of a run
    r2, r3 = M.two_char_regions(), M.three_digit_regions()
    l2, l3 = M.two_letter_languages(), M.three_letter_languages()
    fixed_regions = ['US', 'GB', 'PH', 'ZZ', '00', '99', 'A0', '0A', '419', '001', '000', '999']
    kind = shard[0]
    if kind == 'misc':
        for size in _SIZES:
            check_locale(ctx, '', '', size)
        # well-known locales, every config size, other fields zero and non-zero
        for lang, reg in [('en', ''), ('en', 'US'), ('de', 'DE'), ('zh', 'CN'), ('fil', ''), ('fil', 'PH'), ('es', '419'),
                          ('ast', 'ES'), ('haw', 'US'), ('eng', '001'), ('tgp', ''), ('aaa', ''), ('zzz', 'ZZ'), ('zzz', '999'),
                          ('aa', '00'), ('zz', 'ZZ')]:
            for size in _SIZES:
                for fill in (0, 0x01, 0x7f):
                    check_locale(ctx, lang, reg, size, fill)
    elif kind == 'l2':
        regs = [''] + fixed_regions + rnd.sample(r2, 48) + rnd.sample(r3, 12)
        for i, lang in enumerate(l2):
            if i % shard[2] == shard[1]:
                for reg in regs:
                    check_locale(ctx, lang, reg, _SIZES[(i + len(reg)) % len(_SIZES)])
    elif kind == 'l2full':
        for i, lang in enumerate(l2):
            if i % shard[2] == shard[1]:
                check_locale(ctx, lang, '')
                for reg in r2:
                    check_locale(ctx, lang, reg)
                for reg in r3:
                    check_locale(ctx, lang, reg)
    elif kind == 'regions':
        langs = ['en', 'fil'] + rnd.sample(l2, 2) + rnd.sample(l3, 2)
        allr = r2 + r3
        for i, reg in enumerate(allr):
            if i % shard[2] == shard[1]:
                for lang in langs:
                    check_locale(ctx, lang, reg, _SIZES[i % len(_SIZES)])
    elif kind == 'l3':
        n = 2 if ctx.tier == 'quick' else 24
        base = ['', 'US', '419'] if ctx.tier != 'quick' else ['']
        for i, lang in enumerate(l3):
            if i % shard[2] == shard[1]:
                rr = random.Random(ctx.seed * 1000003 + i)
                regs = base + [rr.choice(r2) for _ in range(n - n // 3)] + [rr.choice(r3) for _ in range(n // 3)]
                for reg in regs:
                    check_locale(ctx, lang, reg, _SIZES[i % len(_SIZES)])
    elif kind == 'history':
        pool = [('', ''), ('en', ''), ('en', 'US'), ('de', 'DE'), ('fr', ''), ('fil', ''), ('fil', 'PH'), ('es', '419'), ('ast', ''),
                ('zh', 'CN'), ('haw', 'US'), ('yue', ''), ('aa', '00'), ('zzz', '999')]
        pool += [(rnd.choice(l2), rnd.choice(r2 + r3 + [''])) for _ in range(20)] + [(rnd.choice(l3), rnd.choice(r2 + r3 + [''])) for _ in range(10)]
        for a in pool:
            for b in pool:
                check_history(ctx, [a, b])
        for _ in range(300 if ctx.tier == 'quick' else 5000):
            check_history(ctx, [rnd.choice(pool) for _ in range(rnd.randint(3, 5))])
    else:
        raise HarnessError('unknown shard %r' % (shard,))


def replay(ctx, case):
    _selftest()
    if case.get('mode') == 'history':
        check_history(ctx, [tuple(l) for l in case['locales']])
        return
    check_locale(ctx, case['language'], case['region'], case.get('size', 28), case.get('fill', 0))
