"""C17 — renaming changes exactly the renamed item, for any sequence of renames.

Domain: histories (lists of operations, generated and shrunk as one Hypothesis value) over a generated DEX
(vf.gen.dexgen): rename class / method / field (to a fresh name or to a name some other item has), reload an
item, reload a method-id / field-id item, query. Two name regimes:
  unique  : every member name, class descriptor and string constant is a distinct pool string;
  collide : names come from a 3-word pool, so methods of different classes, fields, and const-strings share
            pool strings (and a const-string may equal a class descriptor).
Oracle: dictionary model item -> current name. After every operation every class / method / field reports the
model's name and every const-string instruction still shows its original text.

History: on the pinned tree renames were stored per *string index*, so an item or string constant sharing its
original pool string with an item renamed through another handle took over that hook value (fixed in /repo, see
known_findings.json "fixed: property=C17"; the two minimal histories are replayed first as regression cases). Mismatches
of that shape still get their own '...:shared-string-hook' bucket so that a recurrence is reported as one root cause.
"""
import traceback
from hypothesis import strategies as st
from vf.core.runner import hyp_collect
from vf.gen import dexgen as G

PROPERTY = 'C17'
LEVEL = 'exploration'
RULE = ('history = list of 1..25 operations (rename class/method/field to fresh or existing names, reload items and '
        'id items, queries) over a generated 1..3-class DEX in a unique-name or colliding-name regime; every item name '
        'and every const-string text is compared with a dictionary model after every operation. non-trivial = >=2 '
        'renames, a reload after a rename, in the colliding regime a rename of an item whose name string is shared; '
        'distinct = (dex model, history)')
ASSUMPTIONS = ['vf/gen/dexgen.py writes well-formed DEX files',
               'names are observed through ClassDefItem.get_name, EncodedMethod.get_name, EncodedField.get_name and '
               'Instruction21c.get_string/get_output']

PROTOS = [('V', ()), ('V', ('I',)), ('V', ('J',)), ('I', ()), ('V', ('I', 'I'))]
FTYPES = ['I', 'J', 'Ljava/lang/String;', 'Z']
POOL = ['foo', 'bar', 'a']


# ---------------------------------------------------------------------------------- generation
@st.composite
def dex_model(draw):
    collide = draw(st.booleans())
    ncls = draw(st.integers(1, 3))
    classes = []
    uniq = [0]

    def fresh(prefix):
        uniq[0] += 1
        return '%s%d' % (prefix, uniq[0])
    for ci in range(ncls):
        cname = 'Lp/C%d;' % ci
        nm = draw(st.integers(0, 3))          # 0 methods and 0 fields: a class without class_data (marker interface)
        nf = draw(st.integers(0, 3))
        methods, fields = [], []
        used = set()
        for k in range(nm):
            name = draw(st.sampled_from(POOL)) if collide else fresh('m')
            proto = draw(st.sampled_from(PROTOS))
            if (name, proto) in used:
                continue
            used.add((name, proto))
            nconst = draw(st.integers(0, 2))
            consts = []
            for _ in range(nconst):
                if collide:
                    consts.append(draw(st.sampled_from(POOL + ['Lp/C0;', 'Lp/C1;', 'other'])))
                else:
                    consts.append(fresh('k'))
            methods.append((name, proto, consts))
        usedf = set()
        for k in range(nf):
            name = draw(st.sampled_from(POOL)) if collide else fresh('f')
            t = draw(st.sampled_from(FTYPES))
            if (name, t) in usedf:
                continue
            usedf.add((name, t))
            fields.append((name, t, draw(st.booleans())))
        classes.append((cname, methods, fields))
    # blind: nothing is queried before or between the operations (members are still unloaded when renamed);
    # names are only observed once, after the whole history
    return {'collide': collide, 'classes': classes, 'blind': draw(st.integers(0, 3)) == 0}


def op_strategy():
    idx = st.integers(0, 11)
    newname = st.one_of(st.sampled_from(['n1', 'n2', 'n3', 'zz']), st.sampled_from(POOL), st.sampled_from(['m1', 'f1', 'k1']))
    newcls = st.sampled_from(['Lq/N1;', 'Lq/N2;', 'Lp/C0;', 'Lp/C1;', 'Lr/X;'])
    return st.one_of(
        st.tuples(st.just('rename_method'), idx, newname),
        st.tuples(st.just('rename_field'), idx, newname),
        st.tuples(st.just('rename_class'), idx, newcls),
        st.tuples(st.just('reload_method'), idx),
        st.tuples(st.just('reload_field'), idx),
        st.tuples(st.just('reload_class'), idx),
        st.tuples(st.just('reload_method_id'), idx),
        st.tuples(st.just('reload_field_id'), idx),
        st.tuples(st.just('query'), idx),
    )


CASE = st.tuples(dex_model(), st.lists(op_strategy(), min_size=1, max_size=25))


def build_dex(model):
    classes = []
    for (cname, methods, fields) in model['classes']:
        vm = []
        for (name, proto, consts) in methods:
            nparam = sum(2 if p == 'J' else 1 for p in proto[1])
            regs = 1 + 1 + nparam

            def insns(ix, consts=consts, ret=proto[0]):
                b = b''
                for s in consts:
                    b += bytes([0x1a, 0]) + ix.s(s).to_bytes(2, 'little')
                if ret == 'V':
                    b += bytes([0x0e, 0])
                else:
                    b += bytes([0x12, 0x00, 0x0f, 0x00])    # const/4 v0,0 ; return v0
                return b
            vm.append(G.Method(name, proto[0], proto[1], 0x1,
                               G.Code(regs, 1 + nparam, 0, insns, refs=[('s', s) for s in consts])))
        sf = [G.Field(n, t, 0x9) for (n, t, static) in fields if static]
        inf = [G.Field(n, t, 0x1) for (n, t, static) in fields if not static]
        classes.append(G.Class(cname, 0x1, 'Ljava/lang/Object;', sfields=sf, ifields=inf, vmethods=vm))
    df = G.DexFile(classes)
    return df.build(), df


# ---------------------------------------------------------------------------------- execution
def _desc(proto):
    return '(%s)%s' % (' '.join(proto[1]), proto[0])


def run_history(ctx, model, history, record=True):
    from androguard.core import dex
    data, df = build_dex(model)
    blind = bool(model.get('blind'))
    case = {'model': model, 'history': [list(o) for o in history]}
    try:
        d = dex.DEX(data)
    except Exception:
        ctx.fail('exception:parse', case, traceback.format_exc())
        return
    cm = d.get_class_manager()
    # handles, in model order
    H = []      # dict(kind, obj, orig (pool string that carries the name), expected, consts)
    try:
        for (cname, methods, fields) in model['classes']:
            c = d.get_class(cname)
            H.append({'kind': 'class', 'obj': c, 'orig': cname, 'id': 'class %s' % cname})
            ci = [k for k, cc in enumerate(df.classes) if cc.name == cname][0]
            if blind:
                # by position: class_data lists the virtual methods in ascending method-index order, which the writer
                # knows (member_order); no name is asked for, so the members stay unloaded
                order = [(mm.name, (mm.ret, tuple(mm.params))) for mm in df.member_order[ci]['vmethods']]
                lst = list(c.get_methods())
                ems = {(n, _desc(p)): lst[k] for k, (n, p) in enumerate(order)} if len(lst) == len(order) else {}
            else:
                ems = {(m.get_name(), m.get_descriptor()): m for m in c.get_methods()}
            for (name, proto, consts) in methods:
                m = ems[(name, _desc(proto))]
                H.append({'kind': 'method', 'obj': m, 'orig': name, 'consts': list(consts),
                          'id': 'method %s->%s%s' % (cname, name, _desc(proto))})
            if blind:
                forder = [(ff.name, ff.type) for ff in df.member_order[ci]['sfields'] + df.member_order[ci]['ifields']]
                flst = list(c.get_fields())
                efs = {k2: flst[k] for k, k2 in enumerate(forder)} if len(flst) == len(forder) else {}
            else:
                efs = {(f.get_name(), f.get_descriptor()): f for f in c.get_fields()}
            for (name, t, static) in fields:
                H.append({'kind': 'field', 'obj': efs[(name, t)], 'orig': name, 'id': 'field %s->%s:%s' % (cname, name, t)})
    except Exception:
        ctx.fail('exception:lookup', case, traceback.format_exc())
        return
    for h in H:
        h['expected'] = h['orig']
        h['renamed'] = False
    by_kind = {k: [h for h in H if h['kind'] == k] for k in ('class', 'method', 'field')}
    installed = {}      # pool string -> list of (handle id, value) installed through a rename of that handle
    nren = 0
    reload_after_rename = False
    shared_rename = False
    seen_known = []
    allstrings = [h['orig'] for h in H] + [s for h in H for s in h.get('consts', [])]

    def pick(kind, i):
        lst = by_kind[kind]
        return lst[i % len(lst)] if lst else None

    def observe(step):
        """compare everything with the model; returns True if a mismatch was recorded"""
        for h in H:
            try:
                got = h['obj'].get_name()
            except Exception:
                ctx.fail('exception:get_name:%s' % h['kind'], dict(case, step=step, item=h['id']), traceback.format_exc())
                return True
            if got != h['expected']:
                others = [(i, v) for (i, v) in installed.get(h['orig'], []) if i != h['id']]
                shape = 'shared-string-hook' if others and got in [v for (_, v) in others] else 'other'
                if shape == 'other' or not seen_known:
                    ctx.fail('name:%s:%s' % (h['kind'], shape),
                             dict(case, step=step, item=h['id'], expected=h['expected'], observed=got,
                                  original_string=h['orig'], hooks_installed_via_other_items=others),
                             '%s reports %r, model says %r (after %d operations)' % (h['id'], got, h['expected'], step))
                if shape == 'other':
                    return True
                seen_known.append(1)        # known defect shape: keep checking the remaining items and steps
                ctx.count('known_shape_mismatches_skipped')
            if h['kind'] == 'method':
                try:
                    cs = [i for i in h['obj'].get_instructions() if i.get_op_value() == 0x1a]
                    texts = [(i.get_string(), i.get_output()) for i in cs]
                except Exception:
                    ctx.fail('exception:const-string', dict(case, step=step, item=h['id']), traceback.format_exc())
                    return True
                if len(texts) != len(h['consts']):
                    ctx.fail('const-string:count', dict(case, step=step, item=h['id']), 'const-string count changed')
                    return True
                for orig, (gs, go) in zip(h['consts'], texts):
                    if gs != orig or go != 'v0, "%s"' % orig:
                        others = installed.get(orig, [])
                        shape = 'shared-string-hook' if others and gs in [v for (_, v) in others] and go == 'v0, "%s"' % gs else 'other'
                        if shape == 'other' or not seen_known:
                            ctx.fail('const-string:%s' % shape,
                                     dict(case, step=step, item=h['id'], expected=orig, observed=gs, observed_output=go,
                                          original_string=orig, hooks_installed_via_other_items=others),
                                     'const-string %r in %s now reads %r / %r' % (orig, h['id'], gs, go))
                        if shape == 'other':
                            return True
                        seen_known.append(1)
                        ctx.count('known_shape_mismatches_skipped')
        return False

    bad = False if blind else observe(0)
    step = 0
    for op in history:
        if bad:
            break
        step += 1
        kind = op[0]
        try:
            if kind.startswith('rename_'):
                h = pick(kind[7:], op[1])
                if h is None:
                    continue
                h['obj'].set_name(op[2])
                h['expected'] = op[2]
                h['renamed'] = True
                nren += 1
                installed.setdefault(h['orig'], []).append((h['id'], op[2]))
                if allstrings.count(h['orig']) > 1:
                    shared_rename = True
            elif kind in ('reload_method', 'reload_field', 'reload_class'):
                h = pick(kind[7:], op[1])
                if h is None:
                    continue
                h['obj'].reload()
                reload_after_rename = reload_after_rename or nren > 0
            elif kind == 'reload_method_id':
                h = pick('method', op[1])
                if h is None:
                    continue
                cm.get_method_ref(h['obj'].get_method_idx()).reload()
                reload_after_rename = reload_after_rename or nren > 0
            elif kind == 'reload_field_id':
                h = pick('field', op[1])
                if h is None:
                    continue
                cm.get_field_ref(h['obj'].get_field_idx()).reload()
                reload_after_rename = reload_after_rename or nren > 0
        except Exception:
            ctx.fail('exception:%s' % kind, dict(case, step=step), traceback.format_exc())
            bad = True
            break
        if not blind:
            bad = observe(step)
    if blind and not bad:
        bad = observe(step)
    if record:
        nt = nren >= 2 and reload_after_rename and (shared_rename or not model['collide'])
        ctx.case(nontrivial=nt, key=repr((model, history)),
                 labels=['regime:collide' if model['collide'] else 'regime:unique', 'blind' if blind else 'observed-every-step', 'renames:%d' % min(nren, 5),
                         'reload-after-rename' if reload_after_rename else 'no-reload-after-rename'] +
                        (['shared-rename'] if shared_rename else []),
                 sample={'classes': model['classes'], 'history': [list(o) for o in history][:8]})


def _fn(ctx, v):
    run_history(ctx, v[0], v[1])


def shards(tier, seed):
    return [('hyp', k) for k in range(16 if tier == 'quick' else 32)]


def run_shard(ctx, shard):
    n = 250 if ctx.tier == 'quick' else 2500
    hyp_collect(ctx, CASE, _fn, n, salt=shard[1], shrink_examples=400)


def _tuplify(model):
    return {'collide': model['collide'], 'blind': bool(model.get('blind')),
            'classes': [(c[0], [(m[0], (m[1][0], tuple(m[1][1])), list(m[2])) for m in c[1]],
                         [tuple(f) for f in c[2]]) for c in model['classes']]}


def replay(ctx, case):
    run_history(ctx, _tuplify(case['model']), [tuple(o) for o in case['history']])


def _m_shared(bucket, case, msg):
    if not bucket.endswith(':shared-string-hook'):
        return False
    others = case.get('hooks_installed_via_other_items') or []
    return bool(others) and case.get('observed') in [v for (_, v) in others]


MATCHERS = {'shared_string_hook': _m_shared}
