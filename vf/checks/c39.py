"""C39 — API-level resources follow the documented fallback rule.

Exhaustive: every API level -5..100, as int and as decimal string, for both resources through
androconf.load_api_specific_resource_module, and directly through load_permissions (both permission types)
and load_permission_mappings (levels that exist). The oracle is a model over the *directory listing* of the
shipped resource files: exact level if its file exists, else the highest available level below it, else the
lowest (request below the range) or highest (request above the range) level; mappings: the requested level
if its file exists, else the default level. The expected value is json.load() of the file the model selects.
"""
import json
import os
import re
import traceback

PROPERTY = 'C39'
LEVEL = 'exploration'
RULE = ('exhaustive: API levels -5..100 x {int, str} x {aosp_permissions, api_permission_mappings via '
        'load_api_specific_resource_module; load_permissions(permissions|groups) and load_permission_mappings directly}; '
        'plus the "no level given" call. non-trivial = the requested level has no file of its own (a fallback rule '
        'decides) ; distinct = (entry point, resource, type of the argument, level)')
ASSUMPTIONS = ['the set of available levels is the directory listing of androguard/core/api_specific_resources/* '
               '(files named permissions_<digits>.json), read by the harness, not through androguard',
               'the default level is androconf.CONF["DEFAULT_API"] (configuration value, read at run time)',
               'levels whose files have identical content cannot be told apart by the returned value; the number of '
               'distinguishable neighbours is reported in the counters']
EXHAUSTIVE = True

LO, HI = -5, 100
_cache = {}


def _root():
    import androguard.core.api_specific_resources as m
    return os.path.dirname(os.path.realpath(m.__file__))


def available(resource):
    key = ('levels', resource)
    if key not in _cache:
        d = os.path.join(_root(), resource)
        lv = []
        for fn in os.listdir(d):
            m = re.match(r'^permissions_(\d+)\.json$', fn)
            if m:
                lv.append(int(m.group(1)))
        _cache[key] = sorted(lv)
    return _cache[key]


def content(resource, level):
    key = (resource, level)
    if key not in _cache:
        with open(os.path.join(_root(), resource, 'permissions_%d.json' % level)) as f:
            _cache[key] = json.load(f)
    return _cache[key]


def model_permission_level(level):
    """the statement's rule for permission data"""
    lv = available('aosp_permissions')
    if level in lv:
        return level
    if level < lv[0]:
        return lv[0]
    if level > lv[-1]:
        return lv[-1]
    return max(x for x in lv if x < level)


def model_mapping_level(level, default):
    lv = available('api_permission_mappings')
    return level if level in lv else default


def default_api():
    from androguard.core.androconf import CONF
    return int(CONF['DEFAULT_API'])


def check_one(ctx, entry, resource, level, as_str, permtype='permissions'):
    """entry: 'module' (load_api_specific_resource_module) | 'direct'. level None = argument omitted."""
    from androguard.core import androconf
    from androguard.core import api_specific_resources as asr
    arg = None if level is None else (str(level) if as_str else level)
    case = {'entry': entry, 'resource': resource, 'level': level, 'as_str': as_str, 'permtype': permtype}
    dflt = default_api()
    eff = dflt if level is None else level
    if resource == 'aosp_permissions':
        sel = model_permission_level(eff)
        exp = content('aosp_permissions', sel)[permtype]
        fallback = eff not in available('aosp_permissions')
        cls = ('exact' if not fallback else 'below-range' if eff < available('aosp_permissions')[0] else
               'above-range' if eff > available('aosp_permissions')[-1] else 'gap')
    else:
        sel = model_mapping_level(eff, dflt)
        exp = content('api_permission_mappings', sel)
        fallback = eff not in available('api_permission_mappings')
        cls = 'exact' if not fallback else 'default-fallback'
    ctx.case(nontrivial=fallback or level is None,
             key=(entry, resource, permtype, 'none' if level is None else ('s' if as_str else 'i'), level),
             labels=('%s:%s:%s' % (entry, resource, cls), 'arg:' + ('none' if level is None else 'str' if as_str else 'int')),
             sample={'entry': entry, 'resource': resource, 'arg': repr(arg), 'model_selects_level': sel})
    try:
        if entry == 'module':
            got = (androconf.load_api_specific_resource_module(resource) if level is None
                   else androconf.load_api_specific_resource_module(resource, arg))
        elif resource == 'aosp_permissions':
            got = asr.load_permissions(arg, permtype)
        else:
            got = asr.load_permission_mappings(arg)
    except Exception as e:
        ctx.fail('exception:%s:%s:%s' % (type(e).__name__, entry, resource), case, traceback.format_exc())
        return
    if got != exp:
        # which level did it return, if any?  (diagnostic only)
        src = resource
        same = [l for l in available(src)
                if (content(src, l)[permtype] if src == 'aosp_permissions' else content(src, l)) == got]
        zero = 'zero' if level == 0 else cls
        ctx.fail('value:%s:%s:%s:%s' % (entry, resource, 'str' if as_str else 'int', zero), case,
                 'argument %r: model selects level %d, the result equals the data of level(s) %s' % (arg, sel, same or 'none'))


def shards(tier, seed):
    return [('module', 'aosp_permissions'), ('module', 'api_permission_mappings'),
            ('direct', 'aosp_permissions'), ('direct', 'api_permission_mappings')]


def run_shard(ctx, shard):
    entry, resource = shard
    lv = available(resource)
    if len(lv) < 3:
        from vf.core.runner import HarnessError
        raise HarnessError('resource directory %s lists %d levels' % (resource, len(lv)))
    # how well can neighbouring levels be told apart by content?
    if resource == 'aosp_permissions':
        distinct = sum(1 for a, b in zip(lv, lv[1:]) if content(resource, a)['permissions'] != content(resource, b)['permissions'])
    else:
        distinct = sum(1 for a, b in zip(lv, lv[1:]) if content(resource, a) != content(resource, b))
    if entry == 'module':         # once per resource (counters are summed over shards)
        ctx.count('%s:neighbour_levels_with_different_content' % resource, distinct)
        ctx.count('%s:available_levels' % resource, len(lv))
    for level in range(LO, HI + 1):
        for as_str in (False, True):
            if entry == 'module':
                check_one(ctx, entry, resource, level, as_str)
            elif resource == 'aosp_permissions':
                check_one(ctx, entry, resource, level, as_str, 'permissions')
                check_one(ctx, entry, resource, level, as_str, 'groups')
            elif level in lv:
                # load_permission_mappings itself documents no fallback; only existing levels have a specified result
                check_one(ctx, entry, resource, level, as_str)
    if entry == 'module':
        check_one(ctx, entry, resource, None, False)


def replay(ctx, case):
    check_one(ctx, case['entry'], case['resource'], case['level'], case['as_str'], case.get('permtype', 'permissions'))
