"""C32 — a v1 (JAR) certificate is reported only if its key verifies the signature over the matching .SF file.

Generated input: small APKs (zipfile) with AndroidManifest.xml (minSdkVersion absent / <24 / >=24),
META-INF/MANIFEST.MF, META-INF/X.SF and META-INF/X.RSA|EC|DSA where the signature block is a PKCS#7 SignedData built by
the independent writer vf/gen/cms.py (cross-checked against `openssl cms -verify`; the APKs pass `jarsigner -verify`)
from the committed key pool: RSA-2048 / EC P-256 / DSA-2048 x SHA-1 / SHA-256 x {no signed attributes, contentType +
messageDigest, + signingTime} x 1-2 SignerInfos.

Oracle
  unmodified  -> get_certificate_der(X) is exactly the DER of the signer's certificate (of one of the two signers when
                 there are two: SignerInfos are a SET OF), also through get_certificate, get_certificates_v1,
                 get_certificates, and X is listed by get_signature_names;
  one fault   -> no certificate is reported for the faulted signer: the result is None (an exception also reports
                 nothing: counted, not a violation) or - with two SignerInfos - the certificate of a signer whose
                 signature was left intact. Faults are restricted to the four things the statement names:
     .SF                 every byte position xor k masks
     signature value     every byte position xor k masks
     signed attributes   messageDigest changed; signingTime changed/removed/added; unknown attribute added;
                         contentType changed; all attributes dropped; attributes grafted onto an attribute-less
                         signature; .SF changed with messageDigest re-synchronised (nothing is re-signed)
     certificate reference  serial +-1 / other signer's serial; issuer renamed; reference switched to another
                         certificate of the set; the referenced certificate replaced by one with the same issuer and
                         serial but another key ("swapped certificate"), alone or placed before the genuine one.
  Bytes of the CMS container that are not authenticated (versions, algorithm identifiers, the certificate bag beyond
  what the reference selects) are never mutated: the statement does not say what should happen there.
"""
import traceback

from hypothesis import strategies as st

from vf.core.runner import HarnessError, hyp_collect
from vf.gen import cms as G
from vf.gen import v1apk

PROPERTY = 'C32'
LEVEL = 'fault_enumeration'
RULE = ('54 signing configurations (RSA/EC/DSA x SHA-1/SHA-256 x no attrs/attrs/attrs+signingTime x 1 signer [minSdk '
        'absent/21/24] or 2 signers [minSdk 21 and 24]); per configuration the unmodified APK, every byte position of the '
        '.SF and of every signature value xor k masks (quick: 3 masks for one signer, 1 rotating single-bit mask for two; '
        'thorough: 8 single-bit masks + 0xff), and the semantic faults of signed attributes and certificate reference; plus '
        'Hypothesis-drawn configurations (mixed key kinds, file names, extra entries, any mask/position). non-trivial = a '
        'fault applied to an APK whose unmodified form reports the signer certificate (or that unmodified form itself); '
        'distinct = (configuration, fault)')
ASSUMPTIONS = ['vf/gen/cms.py (RFC 5652 SignedData, detached content) and vf/gen/v1apk.py are the trusted writers; cms.py is '
               'cross-checked with `openssl cms -verify` by tools/mkkeys.py --selftest, generated APKs verify with jarsigner',
               'fixtures/keys/*: committed test keys (tools/mkkeys.py); ECDSA/DSA signatures are randomised, so signature '
               'bytes differ from run to run while positions, masks and expected outcomes do not (replay files hold the bytes)',
               'an exception raised for a faulted file reports no certificate: counted in counters.fault_raised:*, not a violation',
               'a one-byte change of an ECDSA/DSA DER signature or an RSA signature never yields another valid signature '
               '(probability ~2^-128)']
EXHAUSTIVE = False

UNKNOWN_ATTR_OID = '1.3.6.1.4.1.99999.32.1'
MASKS1_QUICK = (0x01, 0x80, 0xff)
MASKS_THOROUGH = (1, 2, 4, 8, 16, 32, 64, 128, 0xff)
ATTRMODES = ('noattrs', 'attrs', 'attrs+time')


# -- configurations ------------------------------------------------------------------------------

def configs():
    out = []
    k = 0
    for kind in G.KINDS:
        for digest in G.DIGESTS:
            for am in ATTRMODES:
                out.append(dict(signers=[(kind, 'a', digest, am)], min_sdk=(None, 21, 24)[k % 3], rsa_generic=bool(k % 2),
                                deflate=bool((k // 2) % 2), base='CERT', created_by='1.0 (Android)', extra=[]))
                for ms in (21, 24):
                    out.append(dict(signers=[(kind, 'a', digest, am), (kind, 'b', digest, am)], min_sdk=ms,
                                    rsa_generic=not (k % 2), deflate=False, base='CERT', created_by='1.0 (Android)', extra=[]))
                k += 1
    return out


def cfg_key(cfg):
    return '%s|%s|%s|%s|%s|%s|%s' % (','.join('%s-%s-%s-%s' % tuple(s) for s in cfg['signers']), cfg['min_sdk'],
                                     int(cfg['rsa_generic']), int(cfg['deflate']), cfg['base'], cfg['created_by'],
                                     len(cfg['extra']))


class Base:
    """One signed APK in abstract form: skeleton + .SF + signer parts + certificate list."""

    def __init__(self, cfg):
        pool = G.load_pool()
        self.cfg = cfg
        first = cfg['signers'][0]
        self.sk = v1apk.Skeleton(min_sdk=cfg['min_sdk'], digest=first[2], base=cfg['base'], created_by=cfg['created_by'],
                                 extra=[(n, d) for n, d in cfg['extra']])
        self.sf = self.sk.sf
        self.ext = G.EXT[first[0]]
        self.specs = [G.SignerSpec(kind, who, digest, am != 'noattrs', am == 'attrs+time', cfg['rsa_generic'])
                      for kind, who, digest, am in cfg['signers']]
        self.parts = [G.parts(pool, sp, self.sf) for sp in self.specs]
        self.signer_certs = [pool[sp.kind][sp.who].cert_der for sp in self.specs]
        self.certs = []
        for c in self.signer_certs:
            if c not in self.certs:
                self.certs.append(c)
        self.pool = pool
        self.sig_name = 'META-INF/%s.%s' % (cfg['base'], self.ext)

    def apk(self, sf=None, parts=None, certs=None):
        block = G.render(self.parts if parts is None else parts, self.certs if certs is None else certs)
        return self.sk.apk(self.sf if sf is None else sf, block, self.ext, self.cfg['deflate'])

    def other(self, k):
        """(cert DER, issuer Name, serial) of a certificate of the pool that is not signer k's."""
        sp = self.specs[k]
        who = 'b' if sp.who == 'a' else 'a'
        der = self.pool[sp.kind][who].cert_der
        c = G.ax509.Certificate.load(der)
        return der, c.issuer, c.serial_number


def xor_at(b, pos, mask):
    return b[:pos] + bytes([b[pos] ^ mask]) + b[pos + 1:]


def with_part(parts, k, **changes):
    out = [dict(p) for p in parts]
    out[k].update(changes)
    return out


def _attr_index(attrs, name):
    for i, a in enumerate(attrs):
        if a['type'].native == name:
            return i
    return None


# -- faults --------------------------------------------------------------------------------------
# a fault = (family, descriptor, sf, parts, certs, broken) ; broken = indices of the signers whose signature it invalidates

def byte_faults(base, masks_for):
    n = len(base.parts)
    for pos in range(len(base.sf)):
        for m in masks_for(pos):
            yield ('sf-byte', (pos, m), xor_at(base.sf, pos, m), None, None, set(range(n)))
    for k in range(n):
        sig = base.parts[k]['signature']
        for pos in range(len(sig)):
            for m in masks_for(pos):
                yield ('sig-byte', (k, pos, m), None, with_part(base.parts, k, signature=xor_at(sig, pos, m)), None, {k})


def semantic_faults(base):
    n = len(base.parts)
    for k in range(n):
        p = base.parts[k]
        sp = base.specs[k]
        attrs = p['attrs']
        if attrs is not None:
            md = _attr_index(attrs, 'message_digest')
            dig = attrs[md]['values'][0].native
            for pos, m in ((0, 0x01), (len(dig) - 1, 0x80), (len(dig) // 2, 0xff)):
                new = list(attrs)
                new[md] = G.attr('message_digest', [xor_at(dig, pos, m)])
                yield ('attr-digest-changed', (k, pos, m), None, with_part(base.parts, k, attrs=new), None, {k})
            # .SF changed and messageDigest re-synchronised with it: only the signature over the attributes protects
            for pos in (0, len(base.sf) // 2, len(base.sf) - 1):
                sf2 = xor_at(base.sf, pos, 0x20)
                newp = [dict(q) for q in base.parts]
                for j in range(n):
                    if newp[j]['attrs'] is not None:
                        a2 = list(newp[j]['attrs'])
                        a2[_attr_index(a2, 'message_digest')] = G.attr('message_digest', [G.hashlib.new(newp[j]['digest'], sf2).digest()])
                        newp[j]['attrs'] = a2
                yield ('sf+digest-resynced', (k, pos), sf2, newp, None, set(range(n)))
            ti = _attr_index(attrs, 'signing_time')
            if ti is None:
                t = G.make_attrs(base.sf, sp.digest, True)
                extra = [a for a in t if a['type'].native == 'signing_time']
                yield ('attr-added', (k, 'signing_time'), None, with_part(base.parts, k, attrs=list(attrs) + extra), None, {k})
            else:
                yield ('attr-removed', (k, 'signing_time'), None,
                       with_part(base.parts, k, attrs=[a for i, a in enumerate(attrs) if i != ti]), None, {k})
                new = list(attrs)
                new[ti] = G.attr('signing_time', [G.cms.Time({'utc_time': G.datetime.datetime(
                    2031, 1, 2, 3, 4, 5, tzinfo=G.datetime.timezone.utc)})])
                yield ('attr-changed', (k, 'signing_time'), None, with_part(base.parts, k, attrs=new), None, {k})
            yield ('attr-added', (k, 'unknown-oid'), None, with_part(
                base.parts, k, attrs=list(attrs) + [G.attr(UNKNOWN_ATTR_OID, [G.core.OctetString(b'c32')])]), None, {k})
            ci = _attr_index(attrs, 'content_type')
            new = list(attrs)
            new[ci] = G.attr('content_type', ['signed_data'])
            yield ('attr-changed', (k, 'content_type'), None, with_part(base.parts, k, attrs=new), None, {k})
            yield ('attrs-dropped', (k,), None, with_part(base.parts, k, attrs=None), None, {k})
        else:
            for time in (False, True):
                yield ('attrs-grafted', (k, time), None,
                       with_part(base.parts, k, attrs=list(G.make_attrs(base.sf, sp.digest, time))), None, {k})
        # certificate reference
        oder, oissuer, oserial = base.other(k)
        for d in (1, -1):
            yield ('sid-serial', (k, d), None, with_part(base.parts, k, serial=p['serial'] + d), None, {k})
        yield ('sid-serial', (k, 'other'), None, with_part(base.parts, k, serial=oserial), None, {k})
        yield ('sid-issuer', (k, 'renamed'), None,
               with_part(base.parts, k, issuer=G.renamed(p['issuer'], sp.who.upper(), 'Q')), None, {k})
        yield ('sid-issuer', (k, 'other'), None, with_part(base.parts, k, issuer=oissuer), None, {k})
        certs_plus = base.certs + ([oder] if oder not in base.certs else [])
        yield ('sid-other-cert', (k,), None, with_part(base.parts, k, issuer=oissuer, serial=oserial), certs_plus, {k})
        if sp.who == 'a':
            forged = base.pool[sp.kind]['forged_a']
            mine = base.signer_certs[k]
            yield ('cert-swapped', (k, 'forged-only'), None, None, [forged if c == mine else c for c in base.certs], {k})
            yield ('cert-swapped', (k, 'missing'), None, None, [c for c in base.certs if c != mine] or [oder], {k})
            # forged certificate placed before the genuine one: the genuine one may still be reported (its key verifies)
            i = base.certs.index(mine)
            yield ('cert-swapped', (k, 'forged-first'), None, None, base.certs[:i] + [forged] + base.certs[i:], set())


# -- oracle on concrete bytes --------------------------------------------------------------------

def evaluate(ctx, case, full=True):
    """case: {'apk': bytes, 'sig_name': str, 'positive': bool (unmodified file), 'allowed': [cert DER], 'family': str,
    'tag': str (bucket suffix), 'desc': str}.
    positive: exactly one certificate is reported and it is one of `allowed` (the signers' certificates; SignerInfos
    are a DER SET OF, so which of two valid signers comes first is an encoding matter the statement does not fix).
    fault: nothing or only certificates of `allowed` (signers left intact) are reported."""
    from androguard.core.apk import APK
    positive = bool(case.get('positive'))
    allowed = list(case['allowed'])
    fam = case['family']
    tag = case['tag']
    try:
        a = APK(case['apk'], raw=True)
    except Exception:
        if positive:
            ctx.fail('positive:exception:APK', case, 'APK() raised on a well-formed signed APK\n' + traceback.format_exc()[-1200:])
            return
        raise HarnessError('APK() raised on a generated zip (fault %s %s):\n%s' % (fam, case.get('desc'), traceback.format_exc()))

    def reported(what, certs):
        for c in certs:
            ctx.check(c in allowed, 'reported-after-fault:%s:%s' % (fam, tag), case,
                      '%s: %s reports a certificate (%s) although the %s was altered and nothing was re-signed' % (
                          case.get('desc'), what, _cn(c), fam))

    # 1. get_certificate_der
    try:
        r = a.get_certificate_der(case['sig_name'])
    except Exception as e:
        r = None
        if positive:
            ctx.fail('positive:exception:%s' % tag, case, 'get_certificate_der raised on a validly signed APK\n' + traceback.format_exc()[-1200:])
            return
        ctx.count('fault_raised:%s:%s' % (type(e).__name__, fam))
    if positive:
        ctx.check(r is not None and r in allowed, 'positive:get_certificate_der:%s' % tag, case,
                  '%s: validly signed, get_certificate_der returned %s, expected a signer certificate (%s)' % (
                      case.get('desc'), 'None' if r is None else _cn(r), [_cn(c) for c in allowed]))
        try:
            ctx.check(case['sig_name'] in a.get_signature_names(), 'positive:get_signature_names:%s' % tag, case,
                      '%s not listed by get_signature_names()' % case['sig_name'])
            v1 = [c.dump() for c in a.get_certificates_v1()]
            ctx.check(len(v1) == 1 and v1[0] in allowed, 'positive:get_certificates_v1:%s' % tag, case,
                      'get_certificates_v1() = %r, expected exactly one signer certificate' % [_cn(c) for c in v1])
            one = a.get_certificate(case['sig_name'])
            ctx.check(one is not None and one.dump() in allowed, 'positive:get_certificate:%s' % tag, case,
                      'get_certificate() does not return the signer certificate')
            allc = [c.dump() for c in a.get_certificates()]
            ctx.check(len(allc) == 1 and allc[0] in allowed, 'positive:get_certificates:%s' % tag, case,
                      'get_certificates() = %r, expected exactly one signer certificate' % [_cn(c) for c in allc])
        except Exception:
            ctx.fail('positive:exception:%s' % tag, case, 'certificate API raised on a validly signed APK\n' + traceback.format_exc()[-1200:])
        return
    if r is not None:
        reported('get_certificate_der', [r])
    if full:
        for what, fn in (('get_certificates_v1', lambda: [c.dump() for c in a.get_certificates_v1()]),
                         ('get_certificate', lambda: [c.dump() for c in [a.get_certificate(case['sig_name'])] if c is not None]),
                         ('get_certificates', lambda: [c.dump() for c in a.get_certificates()])):
            try:
                got = fn()
            except Exception as e:
                ctx.count('fault_raised:%s:%s' % (type(e).__name__, fam))
                continue
            reported(what, got)


def _cn(der):
    try:
        return G.ax509.Certificate.load(der).subject.native.get('common_name')
    except Exception:
        return 'undecodable %d bytes' % len(der)


def tag_of(base):
    s = base.cfg['signers']
    return '%s:%s:%s' % (s[0][0], 'attrs' if s[0][3] != 'noattrs' else 'noattrs', 'n%d' % len(s))


def run_base(ctx, base):
    """Unmodified case. Returns True when the signer certificate is reported (faults are then non-trivial)."""
    cfg = base.cfg
    case = dict(apk=base.apk(), sig_name=base.sig_name, positive=True, allowed=list(base.signer_certs),
                family='none', tag=tag_of(base), desc='unmodified ' + cfg_key(cfg))
    before = sum(ctx.fail_counts.values())
    evaluate(ctx, case)
    ok = sum(ctx.fail_counts.values()) == before
    ctx.case(nontrivial=True, key=('base', cfg_key(cfg)),
             labels=['unmodified', 'kind:' + cfg['signers'][0][0], 'digest:' + cfg['signers'][0][2],
                     'attrs:' + cfg['signers'][0][3], 'signers:%d' % len(cfg['signers']),
                     'minSdk:' + ('absent' if cfg['min_sdk'] is None else '<24' if cfg['min_sdk'] < 24 else '>=24')],
             sample={'config': cfg_key(cfg), 'apk_bytes': len(case['apk']), 'sf_bytes': len(base.sf), 'fault': None})
    return ok


def run_fault(ctx, base, fault, base_ok, full):
    fam, descr, sf, parts, certs, broken = fault
    cfg = base.cfg
    allowed = [c for i, c in enumerate(base.signer_certs) if i not in broken]
    case = dict(apk=base.apk(sf, parts, certs), sig_name=base.sig_name, positive=False, allowed=allowed, family=fam,
                tag=tag_of(base), desc='%s %r on %s' % (fam, descr, cfg_key(cfg)))
    ctx.case(nontrivial=base_ok, key=(cfg_key(cfg), fam, descr),
             labels=['fault:' + fam, 'fault-kind:' + cfg['signers'][0][0], 'fault-signers:%d' % len(cfg['signers'])],
             sample={'config': cfg_key(cfg), 'fault': fam, 'descr': list(descr), 'apk_bytes': len(case['apk'])})
    evaluate(ctx, case, full)


# -- Hypothesis part -----------------------------------------------------------------------------

def _signer(kind=None):
    return st.tuples(st.just(kind) if kind else st.sampled_from(G.KINDS), st.sampled_from(G.DIGESTS),
                     st.sampled_from(ATTRMODES))


NAME_CHARS = 'ABCDEFGHIJKLMNOPQRSTUVWXYZabcdefghijklmnopqrstuvwxyz0123456789_-'


@st.composite
def drawn_case(draw):
    s0 = draw(_signer())
    signers = [(s0[0], 'a', s0[1], s0[2])]
    if draw(st.booleans()):
        s1 = draw(_signer())
        # a second signer of another key: 'b' of any kind, or 'a' of a different kind
        who = 'b' if s1[0] == s0[0] else draw(st.sampled_from(['a', 'b']))
        signers.append((s1[0], who, s1[1], s1[2]))
    if draw(st.booleans()) and len(signers) == 2:
        signers.reverse()      # the first signer may be the 'b' key as well
    cfg = dict(signers=signers, min_sdk=draw(st.one_of(st.none(), st.integers(1, 36))), rsa_generic=draw(st.booleans()),
               deflate=draw(st.booleans()), base=draw(st.text(NAME_CHARS, min_size=1, max_size=8)),
               created_by=draw(st.text(NAME_CHARS + ' .()', min_size=1, max_size=20)).strip() or 'x',
               extra=draw(st.lists(st.tuples(st.sampled_from(['classes.dex', 'res/a.bin', 'assets/x.txt', 'lib/l.so']),
                                             st.binary(max_size=24)), max_size=2, unique_by=lambda t: t[0])))
    fam = draw(st.sampled_from(['sf-byte', 'sig-byte', 'semantic', 'semantic']))
    return cfg, fam, draw(st.integers(0, 10 ** 6)), draw(st.integers(1, 255)), draw(st.integers(0, 10 ** 6))


def hyp_fn(ctx, v):
    cfg, fam, posr, mask, pick = v
    base = Base(cfg)
    ok = run_base(ctx, base)
    n = len(base.parts)
    if fam == 'sf-byte':
        pos = posr % len(base.sf)
        f = ('sf-byte', (pos, mask), xor_at(base.sf, pos, mask), None, None, set(range(n)))
    elif fam == 'sig-byte':
        k = pick % n
        sig = base.parts[k]['signature']
        pos = posr % len(sig)
        f = ('sig-byte', (k, pos, mask), None, with_part(base.parts, k, signature=xor_at(sig, pos, mask)), None, {k})
    else:
        fs = list(semantic_faults(base))
        f = fs[pick % len(fs)]
    run_fault(ctx, base, f, ok, True)


# -- check interface -----------------------------------------------------------------------------

def shards(tier, seed):
    n = len(configs())
    sh = [('enum', i) for i in range(n)]
    sh += [('hyp', k) for k in range(4 if tier == 'quick' else 12)]
    return sh


def run_shard(ctx, shard):
    if shard[0] == 'hyp':
        hyp_collect(ctx, drawn_case(), hyp_fn, 150 if ctx.tier == 'quick' else 1500, salt=shard[1], shrink_examples=60)
        return
    cfg = configs()[shard[1]]
    base = Base(cfg)
    ok = run_base(ctx, base)
    two = len(cfg['signers']) == 2
    if ctx.tier == 'thorough':
        def masks_for(pos):
            return MASKS_THOROUGH
    elif two:
        def masks_for(pos):
            return (1 << (pos % 8),)
    else:
        def masks_for(pos):
            return MASKS1_QUICK
    for f in semantic_faults(base):
        run_fault(ctx, base, f, ok, True)
    for f in byte_faults(base, masks_for):
        pos = f[1][-2]
        run_fault(ctx, base, f, ok, pos % 5 == 0)


def replay(ctx, case):
    case = dict(case)
    case.setdefault('allowed', [])
    evaluate(ctx, case, True)


MATCHERS = {}
