"""C32 — a v1 (JAR) certificate is reported only if its key verifies the signature over the matching .SF file.

Generated input: small APKs (zipfile) with AndroidManifest.xml (minSdkVersion absent / <24 / >=24),
META-INF/MANIFEST.MF, META-INF/X.SF and META-INF/X.RSA|EC|DSA where the signature block is a PKCS#7 SignedData built by
the independent writer vf/gen/cms.py (cross-checked against `openssl cms -verify`; the APKs pass `jarsigner -verify`)
from the committed key pool: RSA-2048 / EC P-256 / DSA-2048 x SHA-1 / SHA-256 x {no signed attributes, contentType +
messageDigest, + signingTime} x 1-2 SignerInfos; and APKs with SEVERAL signature files (one X.SF + X.RSA|EC|DSA pair per
signer) whose base names X range over letters, digits, '-', '_' and dots (CERT, RELEASE.2024, a.b.c, ANDROID-1), including
names that are a dot-prefix of one another (RELEASE / RELEASE.2024), with byte-identical or signer-specific .SF contents.
The .SF that belongs to a block is the one with the same name up to the LAST dot (JAR signing convention; apksig's
V1SchemeVerifier, which get_certificate_der's docstring refers to, pairs by lastIndexOf('.')). Only upper-case
.RSA/.EC/.DSA/.SF directly in META-INF/ are generated (what the unchanged code treats as a signature block).

max_sdk_version: get_certificate_der(filename, max_sdk_version=None) is documented as "an optional integer parameter for
the max sdk version"; the only thing the code ties to it is the contentType comparison ("for Android N and newer").
None of the faults below is re-signed, so every one of them must yield no certificate at every platform level, and the
unmodified file (contentType = id-data, as required) must report the signer at every level. Each case is evaluated with
the default call and with explicit values below / at / above 24 (18, 21, 23 / 24, 28, None): all of them for the
unmodified files and the semantic faults, one rotating value (alternately < 24 and >= 24) for the byte faults in the quick tier.

Oracle
  unmodified  -> get_certificate_der(X) is exactly the DER of the signer's certificate (of one of the two signers when
                 there are two: SignerInfos are a SET OF), also through get_certificate, get_certificates_v1,
                 get_certificates, and X is listed by get_signature_names;
  one fault   -> no certificate is reported for the faulted signer: the result is None (an exception also reports
                 nothing: counted, not a violation) or - with two SignerInfos - the certificate of a signer whose
                 signature was left intact. With several signature files the fault is applied to ONE signer's files:
                 that block reports nothing, every other block (its own .SF and block untouched) still reports exactly
                 its signer's certificate. Faults are restricted to the four things the statement names:
     .SF                 every byte position xor k masks
     signature value     every byte position xor k masks
     signed attributes   messageDigest changed; signingTime changed/removed/added; unknown attribute added;
                         contentType changed; all attributes dropped; attributes grafted onto an attribute-less
                         signature; .SF changed with messageDigest re-synchronised (nothing is re-signed)
     certificate reference  serial +-1 / other signer's serial; issuer renamed; reference switched to another
                         certificate of the set; the referenced certificate replaced by one with the same issuer and
                         serial but another key ("swapped certificate"), alone or placed before the genuine one.
  Bytes of the CMS container that are not authenticated (versions, algorithm identifiers, the certificate bag beyond
  what the reference selects) are never mutated: the statement does not say what should happen there.
"""
import traceback

from hypothesis import strategies as st

from vf.core.runner import HarnessError, hyp_collect
from vf.gen import cms as G
from vf.gen import v1apk

PROPERTY = 'C32'
LEVEL = 'fault_enumeration'
RULE = ('54 signing configurations (RSA/EC/DSA x SHA-1/SHA-256 x no attrs/attrs/attrs+signingTime x 1 signer [minSdk '
        'absent/21/24] or 2 signers [minSdk 21 and 24]); per configuration the unmodified APK, every byte position of the '
        '.SF and of every signature value xor k masks (quick: 3 masks for one signer, 1 rotating single-bit mask for two; '
        'thorough: 8 single-bit masks + 0xff), and the semantic faults of signed attributes and certificate reference; 20 '
        'multi-signer configurations (10 sets of 1-3 signature-file base names with dots/dashes/digits/mixed case and '
        'dot-prefix relations x identical / signer-specific .SF contents) with the same fault families applied to each '
        "signer's files separately (byte positions sampled); every case is evaluated through get_certificate_der with the "
        'default and with explicit max_sdk_version values 18/21/23/24/28/None (byte faults, quick: default + one rotating '
        'explicit value, alternately < 24 and >= 24); plus Hypothesis-drawn configurations (mixed key kinds, dotted file names, prefix-related '
        'co-signers, extra entries, any mask/position/max_sdk_version). non-trivial = a fault applied to an APK whose '
        'unmodified form reports the signer certificates (or that unmodified form itself); distinct = (configuration, '
        'faulted signature file, fault)')
ASSUMPTIONS = ['vf/gen/cms.py (RFC 5652 SignedData, detached content) and vf/gen/v1apk.py are the trusted writers; cms.py is '
               'cross-checked with `openssl cms -verify` by tools/mkkeys.py --selftest, generated APKs verify with jarsigner',
               'fixtures/keys/*: committed test keys (tools/mkkeys.py); ECDSA/DSA signatures are randomised, so signature '
               'bytes differ from run to run while positions, masks and expected outcomes do not (replay files hold the bytes)',
               'an exception raised for a faulted file reports no certificate: counted in counters.fault_raised:*, not a violation',
               'a one-byte change of an ECDSA/DSA DER signature or an RSA signature never yields another valid signature '
               '(probability ~2^-128)',
               'the .SF matching META-INF/X.RSA|EC|DSA is META-INF/X.SF with X = everything before the last dot (JAR signing '
               'convention / apksig V1SchemeVerifier); only upper-case extensions directly under META-INF/ are generated',
               'max_sdk_version only selects whether the contentType attribute is compared (code comment "for Android N and '
               'newer"); no generated fault is re-signed and intact files carry contentType = id-data, so the expected '
               'outcome does not depend on it']
EXHAUSTIVE = False

UNKNOWN_ATTR_OID = '1.3.6.1.4.1.99999.32.1'
MASKS1_QUICK = (0x01, 0x80, 0xff)
MASKS_THOROUGH = (1, 2, 4, 8, 16, 32, 64, 128, 0xff)
ATTRMODES = ('noattrs', 'attrs', 'attrs+time')
DEFAULT = 'default'                 # get_certificate_der(name) without the optional argument
SDK_LOW = (18, 21, 23)              # explicit max_sdk_version below Android N
SDK_HIGH = (24, 28, None)           # at / above N, and None passed explicitly
SDK_ALL = (DEFAULT,) + SDK_LOW + SDK_HIGH


def sdk_rot(i):
    return [DEFAULT, (SDK_LOW[(i // 2) % 3], SDK_HIGH[(i // 2) % 3])[i % 2]]


# -- configurations ------------------------------------------------------------------------------
# mcfg = {files: [{signers: [(kind, who, digest, attrmode)], base, rsa_generic, sf_by}], min_sdk, deflate, created_by,
#         extra: [(name, bytes)], order}     one entry of `files` = one signature file pair META-INF/<base>.SF + .<EXT>
# sf_by: Created-By of that signer's .SF (None: the manifest's; all .SF files of the APK are then byte-identical when
# the digests agree, as they are when one tool signs with several keys)

def configs():
    out = []
    k = 0
    for kind in G.KINDS:
        for digest in G.DIGESTS:
            for am in ATTRMODES:
                out.append(dict(files=[dict(signers=[(kind, 'a', digest, am)], base='CERT', rsa_generic=bool(k % 2), sf_by=None)],
                                min_sdk=(None, 21, 24)[k % 3], deflate=bool((k // 2) % 2), created_by='1.0 (Android)',
                                extra=[], order=0))
                for ms in (21, 24):
                    out.append(dict(files=[dict(signers=[(kind, 'a', digest, am), (kind, 'b', digest, am)], base='CERT',
                                               rsa_generic=not (k % 2), sf_by=None)],
                                    min_sdk=ms, deflate=False, created_by='1.0 (Android)', extra=[], order=0))
                k += 1
    return out


# base names of the signature files of one APK (every name is its own signer)
NAMESETS = (('RELEASE', 'RELEASE.2024'), ('RELEASE.2024',), ('a', 'a.b', 'a.b.c'), ('ANDROID-1', 'CERT'),
            ('com.example.OLD', 'com.example.NEW'), ('CERT.1', 'CERT'), ('my-app', 'my-app.release'),
            ('1', '1.0', '1.0.1'), ('Key_0', 'KEY_0.v2-rc.1'), ('X.Y',))


def multi_configs():
    out = []
    for k, names in enumerate(NAMESETS):
        for same in (True, False):
            files = []
            for i, name in enumerate(names):
                kind = G.KINDS[(k + i) % 3]                 # distinct kinds -> distinct certificates per signer
                digest = G.DIGESTS[k % 2] if same else G.DIGESTS[(k + i) % 2]
                am = ATTRMODES[(k + i + (0 if same else 1)) % 3]
                files.append(dict(signers=[(kind, 'ab'[(k + i) % 2], digest, am)], base=name, rsa_generic=bool((k + i) % 2),
                                  sf_by=None if same else '1.%d (vf c32 signer %d)' % (k, i)))
            out.append(dict(files=files, min_sdk=(None, 21, 24, 30)[(k + (0 if same else 2)) % 4], deflate=bool(k % 2),
                            created_by='1.0 (Android)', extra=[], order=(2 * k + (0 if same else 1)) % 4))
    return out


def file_key(f):
    return '%s|%s|%s|%s' % (','.join('%s-%s-%s-%s' % tuple(s) for s in f['signers']), int(f['rsa_generic']), f['base'],
                            '' if f['sf_by'] is None else f['sf_by'])


def cfg_key(mcfg):
    return '%s|%s|%s|%s|%s|%s' % (';'.join(file_key(f) for f in mcfg['files']), mcfg['min_sdk'], int(mcfg['deflate']),
                                  mcfg['created_by'], len(mcfg['extra']), mcfg['order'])


class Base:
    """One signature file pair (X.SF + X.RSA|EC|DSA with 1-2 SignerInfos) in abstract form: .SF + signer parts +
    certificate list."""

    def __init__(self, fcfg, sf):
        pool = G.load_pool()
        self.cfg = fcfg
        first = fcfg['signers'][0]
        self.sf = sf
        self.ext = G.EXT[first[0]]
        self.specs = [G.SignerSpec(kind, who, digest, am != 'noattrs', am == 'attrs+time', fcfg['rsa_generic'])
                      for kind, who, digest, am in fcfg['signers']]
        self.parts = [G.parts(pool, sp, self.sf) for sp in self.specs]
        self.signer_certs = [pool[sp.kind][sp.who].cert_der for sp in self.specs]
        self.certs = []
        for c in self.signer_certs:
            if c not in self.certs:
                self.certs.append(c)
        self.pool = pool
        self.sig_name = 'META-INF/%s.%s' % (fcfg['base'], self.ext)
        self.sf_name = v1apk.sf_name_of(self.sig_name)

    def entries(self, sf=None, parts=None, certs=None):
        block = G.render(self.parts if parts is None else parts, self.certs if certs is None else certs)
        return (self.sf_name, self.sf if sf is None else sf), (self.sig_name, block)

    def other(self, k):
        """(cert DER, issuer Name, serial) of a certificate of the pool that is not signer k's."""
        sp = self.specs[k]
        who = 'b' if sp.who == 'a' else 'a'
        der = self.pool[sp.kind][who].cert_der
        c = G.ax509.Certificate.load(der)
        return der, c.issuer, c.serial_number

    def tag(self):
        s = self.cfg['signers']
        return '%s:%s:%s' % (s[0][0], 'attrs' if s[0][3] != 'noattrs' else 'noattrs', 'n%d' % len(s))


class Multi:
    """One APK: skeleton + one Base per signature file."""

    def __init__(self, mcfg):
        self.cfg = mcfg
        files = mcfg['files']
        names = [f['base'].upper() for f in files]
        assert len(set(names)) == len(names), names
        self.sk = v1apk.Skeleton(min_sdk=mcfg['min_sdk'], digest=files[0]['signers'][0][2], base=files[0]['base'],
                                 created_by=mcfg['created_by'], extra=[(n, d) for n, d in mcfg['extra']])
        self.blocks = [Base(f, self.sk.signature_file(f['signers'][0][2], mcfg['created_by'] if f['sf_by'] is None else f['sf_by']))
                       for f in files]
        self.unmodified = [b.entries() for b in self.blocks]     # rendered once: most faults touch one file only

    def apk(self, j=None, sf=None, parts=None, certs=None):
        """The APK with the files of block j replaced by their faulted form (j None: unmodified)."""
        pairs = list(self.unmodified)
        if j is not None:
            pairs[j] = self.blocks[j].entries(sf, parts, certs)
        order = self.cfg['order']
        if order == 0:
            meta = [e for p in pairs for e in p]                            # X.SF, X.RSA, Y.SF, Y.EC (signing tools)
        elif order == 1:
            meta = [e for p in pairs for e in (p[1], p[0])]                 # block before its .SF
        elif order == 2:
            meta = [p[0] for p in pairs] + [p[1] for p in reversed(pairs)]  # all .SF, then the blocks reversed
        else:
            meta = [p[1] for p in reversed(pairs)] + [p[0] for p in pairs]  # all blocks, then the .SF files
        return self.sk.apk_multi(meta, self.cfg['deflate'])

    def tag(self, j=0):
        """bucket suffix: key kind / attributes / SignerInfos for the plain single CERT-like file; for several signature
        files or dotted base names the name pairing is the feature of interest: coarse class only"""
        names = [f['base'] for f in self.cfg['files']]
        if len(names) == 1 and '.' not in names[0]:
            return self.blocks[0].tag()
        return 'names:' + self.blocks[j].tag().split(':')[1]


def xor_at(b, pos, mask):
    return b[:pos] + bytes([b[pos] ^ mask]) + b[pos + 1:]


def with_part(parts, k, **changes):
    out = [dict(p) for p in parts]
    out[k].update(changes)
    return out


def _attr_index(attrs, name):
    for i, a in enumerate(attrs):
        if a['type'].native == name:
            return i
    return None


# -- faults --------------------------------------------------------------------------------------
# a fault = (family, descriptor, sf, parts, certs, broken) on ONE signature file pair (a Base);
# broken = indices of the SignerInfos of that block whose signature it invalidates

def byte_faults(base, masks_for, sf_step=1, sig_step=1):
    n = len(base.parts)
    for pos in range(0, len(base.sf), sf_step):
        for m in masks_for(pos):
            yield ('sf-byte', (pos, m), xor_at(base.sf, pos, m), None, None, set(range(n)))
    for k in range(n):
        sig = base.parts[k]['signature']
        for pos in range(0, len(sig), sig_step):
            for m in masks_for(pos):
                yield ('sig-byte', (k, pos, m), None, with_part(base.parts, k, signature=xor_at(sig, pos, m)), None, {k})


def semantic_faults(base):
    n = len(base.parts)
    for k in range(n):
        p = base.parts[k]
        sp = base.specs[k]
        attrs = p['attrs']
        if attrs is not None:
            md = _attr_index(attrs, 'message_digest')
            dig = attrs[md]['values'][0].native
            for pos, m in ((0, 0x01), (len(dig) - 1, 0x80), (len(dig) // 2, 0xff)):
                new = list(attrs)
                new[md] = G.attr('message_digest', [xor_at(dig, pos, m)])
                yield ('attr-digest-changed', (k, pos, m), None, with_part(base.parts, k, attrs=new), None, {k})
            # .SF changed and messageDigest re-synchronised with it: only the signature over the attributes protects
            for pos in (0, len(base.sf) // 2, len(base.sf) - 1):
                sf2 = xor_at(base.sf, pos, 0x20)
                newp = [dict(q) for q in base.parts]
                for j in range(n):
                    if newp[j]['attrs'] is not None:
                        a2 = list(newp[j]['attrs'])
                        a2[_attr_index(a2, 'message_digest')] = G.attr('message_digest', [G.hashlib.new(newp[j]['digest'], sf2).digest()])
                        newp[j]['attrs'] = a2
                yield ('sf+digest-resynced', (k, pos), sf2, newp, None, set(range(n)))
            ti = _attr_index(attrs, 'signing_time')
            if ti is None:
                t = G.make_attrs(base.sf, sp.digest, True)
                extra = [a for a in t if a['type'].native == 'signing_time']
                yield ('attr-added', (k, 'signing_time'), None, with_part(base.parts, k, attrs=list(attrs) + extra), None, {k})
            else:
                yield ('attr-removed', (k, 'signing_time'), None,
                       with_part(base.parts, k, attrs=[a for i, a in enumerate(attrs) if i != ti]), None, {k})
                new = list(attrs)
                new[ti] = G.attr('signing_time', [G.cms.Time({'utc_time': G.datetime.datetime(
                    2031, 1, 2, 3, 4, 5, tzinfo=G.datetime.timezone.utc)})])
                yield ('attr-changed', (k, 'signing_time'), None, with_part(base.parts, k, attrs=new), None, {k})
            yield ('attr-added', (k, 'unknown-oid'), None, with_part(
                base.parts, k, attrs=list(attrs) + [G.attr(UNKNOWN_ATTR_OID, [G.core.OctetString(b'c32')])]), None, {k})
            ci = _attr_index(attrs, 'content_type')
            new = list(attrs)
            new[ci] = G.attr('content_type', ['signed_data'])
            yield ('attr-changed', (k, 'content_type'), None, with_part(base.parts, k, attrs=new), None, {k})
            yield ('attrs-dropped', (k,), None, with_part(base.parts, k, attrs=None), None, {k})
        else:
            for time in (False, True):
                yield ('attrs-grafted', (k, time), None,
                       with_part(base.parts, k, attrs=list(G.make_attrs(base.sf, sp.digest, time))), None, {k})
        # certificate reference
        oder, oissuer, oserial = base.other(k)
        for d in (1, -1):
            yield ('sid-serial', (k, d), None, with_part(base.parts, k, serial=p['serial'] + d), None, {k})
        yield ('sid-serial', (k, 'other'), None, with_part(base.parts, k, serial=oserial), None, {k})
        yield ('sid-issuer', (k, 'renamed'), None,
               with_part(base.parts, k, issuer=G.renamed(p['issuer'], sp.who.upper(), 'Q')), None, {k})
        yield ('sid-issuer', (k, 'other'), None, with_part(base.parts, k, issuer=oissuer), None, {k})
        certs_plus = base.certs + ([oder] if oder not in base.certs else [])
        yield ('sid-other-cert', (k,), None, with_part(base.parts, k, issuer=oissuer, serial=oserial), certs_plus, {k})
        if sp.who == 'a':
            forged = base.pool[sp.kind]['forged_a']
            mine = base.signer_certs[k]
            yield ('cert-swapped', (k, 'forged-only'), None, None, [forged if c == mine else c for c in base.certs], {k})
            yield ('cert-swapped', (k, 'missing'), None, None, [c for c in base.certs if c != mine] or [oder], {k})
            # forged certificate placed before the genuine one: the genuine one may still be reported (its key verifies)
            i = base.certs.index(mine)
            yield ('cert-swapped', (k, 'forged-first'), None, None, base.certs[:i] + [forged] + base.certs[i:], set())


# -- oracle on concrete bytes --------------------------------------------------------------------

def _sdk_tag(sdk):
    return '' if sdk == DEFAULT else ':sdk=None' if sdk is None else ':sdk<24' if sdk < 24 else ':sdk>=24'


def evaluate(ctx, case, full=True):
    """case: {'apk': bytes, 'blocks': [{'sig_name': str, 'intact': bool, 'allowed': [cert DER]}], 'sdk': [max_sdk_version
    values, 'default' = argument omitted], 'positive': bool (unmodified file), 'family', 'tag' (bucket suffix), 'desc'}.
    intact block (its .SF, signature, attributes, certificate reference untouched): exactly one certificate is reported
    for it and it is one of `allowed` (the signers' certificates; SignerInfos are a DER SET OF, so which of two valid
    signers comes first is an encoding matter the statement does not fix).
    faulted block: nothing or only a certificate of `allowed` (SignerInfos left intact) is reported.
    (replay files written before the several-files generalisation have sig_name/allowed/positive at top level)"""
    from androguard.core.apk import APK
    positive = bool(case.get('positive'))
    blocks = case.get('blocks')
    if blocks is None:
        blocks = [dict(sig_name=case['sig_name'], intact=positive, allowed=list(case['allowed']))]
    sdks = list(case.get('sdk') or [DEFAULT])
    fam = case['family']
    tag = case['tag']
    union = [c for b in blocks for c in b['allowed']]
    try:
        a = APK(case['apk'], raw=True)
    except Exception:
        if positive:
            ctx.fail('positive:exception:APK', case, 'APK() raised on a well-formed signed APK\n' + traceback.format_exc()[-1200:])
            return
        raise HarnessError('APK() raised on a generated zip (fault %s %s):\n%s' % (fam, case.get('desc'), traceback.format_exc()))

    def reported(what, certs, allowed):
        for c in certs:
            ctx.check(c in allowed, 'reported-after-fault:%s:%s' % (fam, tag), case,
                      '%s: %s reports a certificate (%s) although the %s was altered and nothing was re-signed' % (
                          case.get('desc'), what, _cn(c), fam))

    # 1. get_certificate_der, per block and per max_sdk_version. The bucket names the max_sdk_version class only when the
    # outcome depends on it (a failure at every level is one root cause, not four).
    cascade = False
    for b in blocks:
        name = b['sig_name']
        bad = []
        for sdk in sdks:
            call = 'get_certificate_der(%r%s)' % (name, '' if sdk == DEFAULT else ', max_sdk_version=%r' % (sdk,))
            try:
                r = a.get_certificate_der(name) if sdk == DEFAULT else a.get_certificate_der(name, max_sdk_version=sdk)
            except Exception as e:
                if b['intact']:
                    bad.append((sdk, 'positive:exception:%s', '%s: %s raised although the block and its .SF are untouched\n%s' % (
                        case.get('desc'), call, traceback.format_exc()[-1200:])))
                else:
                    ctx.count('fault_raised:%s:%s' % (type(e).__name__, fam))
                continue
            if b['intact']:
                if r is None or r not in b['allowed']:
                    bad.append((sdk, 'positive:get_certificate_der:%s',
                                '%s: block and its .SF (%s) untouched, %s returned %s, expected a signer certificate (%s)' % (
                                    case.get('desc'), v1apk.sf_name_of(name), call, 'None' if r is None else _cn(r),
                                    [_cn(c) for c in b['allowed']])))
            elif r is not None and r not in b['allowed']:
                bad.append((sdk, 'reported-after-fault:' + fam + ':%s',
                            '%s: %s reports a certificate (%s) although the %s was altered and nothing was re-signed' % (
                                case.get('desc'), call, _cn(r), fam)))
        seen = set()
        classes = {_sdk_tag(x) for x in sdks}
        for sdk, pattern, msg in bad:
            bucket = pattern % tag + ('' if len(bad) == len(sdks) and len(classes) > 1 else _sdk_tag(sdk))
            if bucket not in seen:
                seen.add(bucket)
                ctx.fail(bucket, case, msg)
        cascade = cascade or (b['intact'] and bool(bad))
    if cascade or (not full and not positive):
        return          # an untouched block that reports nothing also fails every accessor below: one root cause
    # 2. the other accessors (they use the default max_sdk_version)
    intact = [b for b in blocks if b['intact']]
    aggregate = 'positive' if positive else 'intact-block'

    def represented(what, got):
        for b in intact:
            ctx.check(any(c in got for c in b['allowed']), '%s:%s:%s' % (aggregate, what, tag), case,
                      '%s: %s() = %r lacks the certificate of the untouched block %s (%s)' % (
                          case.get('desc'), what, [_cn(c) for c in got], b['sig_name'], [_cn(c) for c in b['allowed']]))

    try:
        names = a.get_signature_names()
        for b in intact:
            ctx.check(b['sig_name'] in names, '%s:get_signature_names:%s' % (aggregate, tag), case,
                      '%s: %s (with %s present) not listed by get_signature_names() = %r' % (
                          case.get('desc'), b['sig_name'], v1apk.sf_name_of(b['sig_name']), names))
    except Exception:
        ctx.fail('positive:exception:%s' % tag, case, 'get_signature_names raised\n' + traceback.format_exc()[-1200:])
    for b in blocks:
        try:
            one = a.get_certificate(b['sig_name'])
        except Exception as e:
            if b['intact']:
                ctx.fail('positive:exception:%s' % tag, case, 'get_certificate(%r) raised although the block and its .SF are '
                         'untouched\n%s' % (b['sig_name'], traceback.format_exc()[-1200:]))
            else:
                ctx.count('fault_raised:%s:%s' % (type(e).__name__, fam))
            continue
        if b['intact']:
            ctx.check(one is not None and one.dump() in b['allowed'], '%s:get_certificate:%s' % (aggregate, tag), case,
                      '%s: get_certificate(%r) does not return the signer certificate' % (case.get('desc'), b['sig_name']))
        elif one is not None:
            reported('get_certificate(%r)' % b['sig_name'], [one.dump()], b['allowed'])
    for what, fn in (('get_certificates_v1', lambda: [c.dump() for c in a.get_certificates_v1()]),
                     ('get_certificates', lambda: [c.dump() for c in a.get_certificates()])):
        try:
            got = fn()
        except Exception as e:
            if positive:
                ctx.fail('positive:exception:%s' % tag, case, '%s() raised on a validly signed APK\n%s' % (what, traceback.format_exc()[-1200:]))
            else:
                ctx.count('fault_raised:%s:%s' % (type(e).__name__, fam))
            continue
        if positive:
            # one certificate per signature block (get_certificates drops repeated certificates)
            ok = all(c in union for c in got) and (len(got) == len(blocks) if what == 'get_certificates_v1'
                                                    else 1 <= len(got) <= len(blocks))
            ctx.check(ok, 'positive:%s:%s' % (what, tag), case, '%s: %s() = %r, expected one signer certificate per block (%r)' % (
                case.get('desc'), what, [_cn(c) for c in got], [[_cn(c) for c in b['allowed']] for b in blocks]))
        else:
            reported(what, got, union)
        represented(what, got)


def _cn(der):
    try:
        return G.ax509.Certificate.load(der).subject.native.get('common_name')
    except Exception:
        return 'undecodable %d bytes' % len(der)


def _labels_of(multi):
    f0 = multi.cfg['files'][0]['signers'][0]
    ms = multi.cfg['min_sdk']
    names = [f['base'] for f in multi.cfg['files']]
    lab = ['kind:' + f0[0], 'digest:' + f0[2], 'attrs:' + f0[3],
           'signers:%d' % len(multi.cfg['files'][0]['signers']), 'files:%d' % len(names),
           'minSdk:' + ('absent' if ms is None else '<24' if ms < 24 else '>=24')]
    if any('.' in n for n in names):
        lab.append('name:dotted')
    if any(m != n and m.startswith(n + '.') for n in names for m in names):
        lab.append('name:dot-prefix-pair')
    if len(names) > 1:
        lab.append('sf:identical' if len({b.sf for b in multi.blocks}) == 1 else 'sf:distinct')
    return lab


def run_base(ctx, multi, sdks=SDK_ALL):
    """Unmodified case. Returns True when every signer certificate is reported (faults are then non-trivial)."""
    cfg = multi.cfg
    case = dict(apk=multi.apk(), blocks=[dict(sig_name=b.sig_name, intact=True, allowed=list(b.signer_certs)) for b in multi.blocks],
                sdk=list(sdks), positive=True, family='none', tag=multi.tag(), desc='unmodified ' + cfg_key(cfg))
    before = sum(ctx.fail_counts.values())
    evaluate(ctx, case)
    ok = sum(ctx.fail_counts.values()) == before
    ctx.case(nontrivial=True, key=('base', cfg_key(cfg)), labels=['unmodified'] + _labels_of(multi),
             sample={'config': cfg_key(cfg), 'apk_bytes': len(case['apk']), 'sf_bytes': len(multi.blocks[0].sf), 'fault': None})
    return ok


def run_fault(ctx, multi, j, fault, base_ok, full, sdks=SDK_ALL):
    """fault applied to the files of signature file pair j; every other pair stays as signed."""
    fam, descr, sf, parts, certs, broken = fault
    cfg = multi.cfg
    blocks = []
    for i, b in enumerate(multi.blocks):
        if i == j:
            blocks.append(dict(sig_name=b.sig_name, intact=False, allowed=[c for k, c in enumerate(b.signer_certs) if k not in broken]))
        else:
            blocks.append(dict(sig_name=b.sig_name, intact=True, allowed=list(b.signer_certs)))
    target = multi.blocks[j]
    case = dict(apk=multi.apk(j, sf, parts, certs), blocks=blocks, sdk=list(sdks), positive=False, family=fam, tag=multi.tag(j),
                desc='%s %r on %s of %s' % (fam, descr, target.sf_name if sf is not None and parts is None else target.sig_name,
                                            cfg_key(cfg)))
    fk = target.cfg['signers'][0][0]
    ctx.case(nontrivial=base_ok, key=(cfg_key(cfg), j, fam, descr),
             labels=['fault:' + fam, 'fault-kind:' + fk, 'fault-signers:%d' % len(target.cfg['signers']),
                     'fault-files:%d' % len(multi.blocks)] + sorted({'fault-' + (_sdk_tag(s)[1:] or 'sdk:default') for s in sdks}),
             sample={'config': cfg_key(cfg), 'file': target.sig_name, 'fault': fam, 'descr': list(descr),
                     'apk_bytes': len(case['apk'])})
    evaluate(ctx, case, full)


# -- Hypothesis part -----------------------------------------------------------------------------

def _signer(kind=None):
    return st.tuples(st.just(kind) if kind else st.sampled_from(G.KINDS), st.sampled_from(G.DIGESTS),
                     st.sampled_from(ATTRMODES))


NAME_CHARS = 'ABCDEFGHIJKLMNOPQRSTUVWXYZabcdefghijklmnopqrstuvwxyz0123456789_-'
# a base name = 1-3 segments joined by dots; no segment spells an extension of the signing convention
SEGMENT = st.text(NAME_CHARS, min_size=1, max_size=6).filter(lambda s: s.upper() not in ('SF', 'RSA', 'DSA', 'EC', 'MF'))
BASE_NAME = st.lists(SEGMENT, min_size=1, max_size=3).map('.'.join)
SDK_VALUE = st.one_of(st.just(DEFAULT), st.none(), st.sampled_from(SDK_LOW + SDK_HIGH[:2]), st.integers(1, 36))


@st.composite
def drawn_file(draw, base):
    s0 = draw(_signer())
    signers = [(s0[0], 'a', s0[1], s0[2])]
    if draw(st.booleans()):
        s1 = draw(_signer())
        # a second signer of another key: 'b' of any kind, or 'a' of a different kind
        who = 'b' if s1[0] == s0[0] else draw(st.sampled_from(['a', 'b']))
        signers.append((s1[0], who, s1[1], s1[2]))
    if draw(st.booleans()) and len(signers) == 2:
        signers.reverse()      # the first signer may be the 'b' key as well
    return dict(signers=signers, base=base, rsa_generic=draw(st.booleans()),
                sf_by=draw(st.one_of(st.none(), st.text(NAME_CHARS + ' .()', min_size=1, max_size=12).map(lambda s: s.strip() or 'y'))))


@st.composite
def drawn_case(draw):
    base = draw(BASE_NAME)
    names = [base]
    for _ in range(draw(st.sampled_from([0, 0, 1, 1, 2]))):
        rel = draw(st.sampled_from(['free', 'extend', 'prefix']))
        ref = draw(st.sampled_from(names))
        if rel == 'extend':
            new = ref + '.' + draw(SEGMENT)
        elif rel == 'prefix' and '.' in ref:
            segs = ref.split('.')
            new = '.'.join(segs[:draw(st.integers(1, len(segs) - 1))])
        else:
            new = draw(BASE_NAME)
        if new.upper() not in [n.upper() for n in names]:
            names.append(new)
    names = draw(st.permutations(names))
    files = [draw(drawn_file(n)) for n in names]
    cfg = dict(files=files, min_sdk=draw(st.one_of(st.none(), st.integers(1, 36))), deflate=draw(st.booleans()),
               created_by=draw(st.text(NAME_CHARS + ' .()', min_size=1, max_size=20)).strip() or 'x',
               extra=draw(st.lists(st.tuples(st.sampled_from(['classes.dex', 'res/a.bin', 'assets/x.txt', 'lib/l.so']),
                                             st.binary(max_size=24)), max_size=2, unique_by=lambda t: t[0])),
               order=draw(st.integers(0, 3)))
    fam = draw(st.sampled_from(['sf-byte', 'sf-byte', 'sig-byte', 'semantic', 'semantic']))
    sdks = draw(st.lists(SDK_VALUE, min_size=1, max_size=3, unique_by=repr))
    return (cfg, fam, draw(st.integers(0, 10 ** 6)), draw(st.integers(1, 255)), draw(st.integers(0, 10 ** 6)),
            draw(st.integers(0, len(files) - 1)), sdks)


def hyp_fn(ctx, v):
    cfg, fam, posr, mask, pick, j, sdks = v
    multi = Multi(cfg)
    ok = run_base(ctx, multi, sdks)
    base = multi.blocks[j]
    n = len(base.parts)
    if fam == 'sf-byte':
        pos = posr % len(base.sf)
        f = ('sf-byte', (pos, mask), xor_at(base.sf, pos, mask), None, None, set(range(n)))
    elif fam == 'sig-byte':
        k = pick % n
        sig = base.parts[k]['signature']
        pos = posr % len(sig)
        f = ('sig-byte', (k, pos, mask), None, with_part(base.parts, k, signature=xor_at(sig, pos, mask)), None, {k})
    else:
        fs = list(semantic_faults(base))
        f = fs[pick % len(fs)]
    run_fault(ctx, multi, j, f, ok, True, sdks)


# -- check interface -----------------------------------------------------------------------------

def shards(tier, seed):
    sh = [('enum', i) for i in range(len(configs()))]
    sh += [('multi', i) for i in range(len(multi_configs()))]
    sh += [('hyp', k) for k in range(4 if tier == 'quick' else 12)]
    return sh


def run_shard(ctx, shard):
    if shard[0] == 'hyp':
        hyp_collect(ctx, drawn_case(), hyp_fn, 150 if ctx.tier == 'quick' else 1500, salt=shard[1], shrink_examples=60)
        return
    thorough = ctx.tier == 'thorough'
    if shard[0] == 'multi':
        cfg = multi_configs()[shard[1]]
        multi = Multi(cfg)
        ok = run_base(ctx, multi)
        i = shard[1]
        for j, base in enumerate(multi.blocks):
            for f in semantic_faults(base):
                run_fault(ctx, multi, j, f, ok, True)
            # the pairing of block and .SF does not depend on the position: sample the positions
            for f in byte_faults(base, lambda pos: (1 << (pos % 8),),
                                 sf_step=1 if thorough else 6, sig_step=1 if thorough else 13):
                i += 1
                run_fault(ctx, multi, j, f, ok, i % 4 == 0, SDK_ALL if thorough else sdk_rot(i))
        return
    cfg = configs()[shard[1]]
    multi = Multi(cfg)
    base = multi.blocks[0]
    ok = run_base(ctx, multi)
    two = len(base.parts) == 2
    if thorough:
        def masks_for(pos):
            return MASKS_THOROUGH
    elif two:
        def masks_for(pos):
            return (1 << (pos % 8),)
    else:
        def masks_for(pos):
            return MASKS1_QUICK
    for f in semantic_faults(base):
        run_fault(ctx, multi, 0, f, ok, True)
    i = shard[1]
    for f in byte_faults(base, masks_for):
        pos = f[1][-2]
        i += 1
        run_fault(ctx, multi, 0, f, ok, pos % 5 == 0, SDK_ALL if thorough else sdk_rot(i))


def replay(ctx, case):
    case = dict(case)
    if 'blocks' not in case:
        case.setdefault('allowed', [])
    evaluate(ctx, case, True)


MATCHERS = {}
