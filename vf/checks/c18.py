"""C18 — the decompiler's dominator tree is the true dominator tree.

Real `androguard.decompiler.graph.Graph` objects holding real `StatementBlock` nodes are built from plain
digraphs (normal and catch edges); `Graph.immediate_dominators()` (Lengauer-Tarjan, dom_lt) is compared with
the iterative set-based solution of vf.model.dominators on the reachable subgraph.  On graphs with at most
6 nodes the model itself is cross-checked against the literal definition (node deletion).

Domain: every digraph on 1..4 nodes with entry 0 incl. self-loops (quick; 5 edge-kind/insertion-order
variants each, every normal/catch/both assignment for <= 3 nodes), every 5-node digraph without self-loops
(thorough) plus sampled 5/6-node graphs with self-loops, and Hypothesis families up to 300 nodes.
"""
import traceback
from vf.core.runner import hyp_collect, HarnessError
from vf.gen import digraphs as dg
from vf.model import dominators as dm

PROPERTY = 'C18'
LEVEL = 'exploration'
RULE = ('digraphs with entry 0, each edge normal / catch / both: all 66 066 graphs on <=4 nodes incl. self-loops '
        '(quick and thorough; 5 kind+order variants each, all 3^|E| kind assignments for <=3 nodes), all 2^20 5-node '
        'graphs without self-loops (thorough), Hypothesis families sparse / DAG+back edges / irreducible two-entry '
        'loops / ladders / dense / with unreachable nodes up to 300 nodes. non-trivial = some reachable node whose '
        'immediate dominator is not its DFS-tree parent, or the graph is irreducible; distinct = (n, edge list with kinds)')
ASSUMPTIONS = ['reference: vf/model/dominators.py (iterative set intersection, cross-checked against the node-deletion '
               'definition on every graph with <= 6 nodes)',
               'nodes are real StatementBlock objects without instructions; only Graph.add_node/add_edge/add_catch_edge '
               'and Graph.entry are used to build the input']


EXHAUSTIVE = True


def build(case):
    """case -> (Graph, [nodes]) using androguard's own graph/node classes."""
    from androguard.decompiler.graph import Graph
    from androguard.decompiler.basic_blocks import StatementBlock
    g = Graph()
    nodes = [StatementBlock('n%d' % i, []) for i in range(case['n'])]
    for x in nodes:
        g.add_node(x)
    for a, b, k in case['edges']:
        if k in (0, 2):
            g.add_edge(nodes[a], nodes[b])
        if k in (1, 2):
            g.add_catch_edge(nodes[a], nodes[b])
    g.entry = nodes[0]
    return g, nodes


def successor_order(case):
    """successor lists in the order Graph.all_sucs yields them (normal edges first, then catch edges)."""
    n = case['n']
    nor = {i: [] for i in range(n)}
    cat = {i: [] for i in range(n)}
    for a, b, k in case['edges']:
        if k in (0, 2) and b not in nor[a]:
            nor[a].append(b)
        if k in (1, 2) and b not in cat[a]:
            cat[a].append(b)
    succ = {}
    for i in range(n):
        succ[i] = nor[i] + [b for b in cat[i] if b not in nor[i]]
    return succ


def check_graph(ctx, case):
    n = case['n']
    succ = successor_order(case)
    dom = dm.dominators(succ, 0)
    if n <= 6:
        if dom != dm.dominators_by_removal(succ, 0):
            raise HarnessError('reference models disagree on %r' % (case,))
    exp = dm.idom_from_dom(dom, 0)
    parent, pre, post, kinds = dm.dfs(succ, 0)
    reducible = dm.is_reducible(succ, 0, dom, kinds)
    off_tree = any(exp[x] != parent[x] for x in exp)
    has_catch = any(k for _, _, k in case['edges'])
    labels = ['fam:' + case.get('family', '?'), 'reducible' if reducible else 'irreducible',
              'idom!=dfs-parent' if off_tree else 'idom==dfs-parent',
              'catch-edges' if has_catch else 'normal-only',
              'all-reachable' if len(exp) == n else 'has-unreachable',
              'self-loop' if any(a == b for a, b, _ in case['edges']) else 'no-self-loop',
              'n<=5' if n <= 5 else 'n<=20' if n <= 20 else 'n<=100' if n <= 100 else 'n<=300']
    ctx.case(nontrivial=off_tree or not reducible, key=(n, tuple(map(tuple, case['edges']))), labels=labels,
             sample={'n': n, 'edges': case['edges'][:40], 'idom': {str(k): v for k, v in sorted(exp.items())[:12]}})
    rec = {'n': n, 'edges': case['edges'], 'family': case.get('family', '?')}
    cls = ('catch' if has_catch else 'plain') + (':red' if reducible else ':irred')
    try:
        g, nodes = build(case)
        got = g.immediate_dominators()
    except Exception:
        ctx.fail('exception:%s' % cls, rec, traceback.format_exc())
        return
    index = {x: i for i, x in enumerate(nodes)}
    wrong = []
    for x in sorted(exp):
        if nodes[x] not in got:
            wrong.append((x, exp[x], 'missing'))
            continue
        gx = got[nodes[x]]
        gi = None if gx is None else index.get(gx, repr(gx))
        if gi != exp[x]:
            wrong.append((x, exp[x], gi))
    if wrong:
        x, e, o = wrong[0]
        what = 'entry' if x == 0 else 'missing' if o == 'missing' else 'idom'
        rec['expected_idom'] = {str(k): v for k, v in sorted(exp.items())}
        rec['wrong'] = wrong[:10]
        ctx.fail('%s:%s' % (what, cls), rec, 'node %d: immediate dominator %r, reference %r (%d nodes differ)' % (x, o, e, len(wrong)))


# -- shards -------------------------------------------------------------------------------

NSPLIT4 = 16


def shards(tier, seed):
    sh = [('small',)]
    sh += [('exh4', k) for k in range(NSPLIT4)]
    if tier == 'thorough':
        sh += [('exh5', k, 64) for k in range(64)]
        sh += [('hyp', k) for k in range(24)]
    else:
        sh += [('hyp', k) for k in range(12)]
    return sh


def _variants(ctx, n, prs, mask, rnd, nrand):
    m = bin(mask).count('1')
    yield dg.graph_from_mask(n, mask, prs)
    if m:
        yield dg.graph_from_mask(n, mask, prs, descending=True)
        yield dg.graph_from_mask(n, mask, prs, kinds=[1] * m)
        for j in range(nrand):
            yield dg.graph_from_mask(n, mask, prs, kinds=dg.kinds_from_int(m, rnd.getrandbits(2 * m), 3 if j else 2),
                                     descending=bool(j & 1))


def _preimport():
    """Import everything androguard will need *before* Hypothesis starts: a module imported lazily inside the first
    generated example perturbs Hypothesis' generation, which would make a shard depend on what its worker ran before."""
    import androguard.core.dex                      # noqa: F401
    import androguard.core.analysis.analysis        # noqa: F401
    import androguard.decompiler.decompile          # noqa: F401
    import androguard.decompiler.graph              # noqa: F401
    import androguard.decompiler.dataflow           # noqa: F401
    import androguard.decompiler.control_flow       # noqa: F401
    import androguard.decompiler.writer             # noqa: F401


def run_shard(ctx, shard):
    _preimport()
    import random
    kind = shard[0]
    rnd = random.Random('C18:%d:%r' % (ctx.seed, shard))
    if kind == 'small':
        for n in (1, 2, 3):
            prs = dg.pairs(n)
            for mask in range(1 << len(prs)):
                m = bin(mask).count('1')
                for v in range(3 ** m):          # every normal/catch/both assignment
                    check_graph(ctx, dg.graph_from_mask(n, mask, prs, kinds=dg.kinds_from_int(m, v, 3)))
                if m:
                    check_graph(ctx, dg.graph_from_mask(n, mask, prs, descending=True))
    elif kind == 'exh4':
        prs = dg.pairs(4)
        per = (1 << 16) // NSPLIT4
        for mask in range(shard[1] * per, (shard[1] + 1) * per):
            for c in _variants(ctx, 4, prs, mask, rnd, 2):
                check_graph(ctx, c)
    elif kind == 'exh5':
        prs = dg.pairs(5, self_loops=False)
        per = (1 << 20) // shard[2]
        for mask in range(shard[1] * per, (shard[1] + 1) * per):
            m = bin(mask).count('1')
            check_graph(ctx, dg.graph_from_mask(5, mask, prs))
            if m:
                check_graph(ctx, dg.graph_from_mask(5, mask, prs, kinds=dg.kinds_from_int(m, rnd.getrandbits(m)),
                                                    descending=bool(mask & 1)))
        # sampled 5- and 6-node graphs with self-loops
        for n in (5, 6):
            prs = dg.pairs(n)
            for _ in range(3000):
                mask = rnd.getrandbits(len(prs)) & rnd.getrandbits(len(prs))
                m = bin(mask).count('1')
                c = dg.graph_from_mask(n, mask, prs, kinds=dg.kinds_from_int(m, rnd.getrandbits(2 * m), 3))
                c['family'] = 'sampled%d' % n
                check_graph(ctx, c)
    else:
        quick = ctx.tier == 'quick'
        strat = dg.digraph(max_n=300, unreachable=True)
        hyp_collect(ctx, strat, check_graph, 250 if quick else 1500, salt=shard[1])


def replay(ctx, case):
    check_graph(ctx, {'n': case['n'], 'edges': [list(e) for e in case['edges']], 'family': case.get('family', 'replay')})
