"""C31 — manifest queries report what the manifest declares.

Domain: random manifest models (vf/gen/manifestgen.py) serialised by the independent binary-XML writer (vf/gen/axmlgen.py)
the way aapt lays a manifest out (android: attributes with resource ids, typed values) and packed into an APK
(vf/gen/zipgen.py). Oracle: vf/model/manifest.py (Android's rules: component-name completion, main-activity rule,
effective target SDK, permission de-duplication).

Clauses (each grounded in the property statement; list-valued queries are compared as multisets because the statement
does not fix an order and androguard passes elements through a set):
  package            get_package()                       == package attribute
  version            get_androidversion_code()/name()    == decimal text of versionCode / versionName, None when absent
  permissions        get_permissions()                   == the distinct android:name values of <uses-permission>, each once
  permission_maxsdk  APK.uses_permissions                as a set of (name, maxSdkVersion) == the declared pairs
  components         get_activities/services/receivers/providers() == completed names of the elements of that kind
                     (alias names are tolerated in get_activities: the statement does not say whether an alias is an activity)
  main               get_main_activities() completed     == set of completed names of enabled activities / aliases having
                                                            one intent-filter with action MAIN and category LAUNCHER
                     get_main_activity()                 is None iff that set is empty, else a member of it
  sdk                get_min/target/max_sdk_version()    == decimal text of the attribute, None when absent
  effective_target   get_effective_target_sdk_version()  == target, else min, else 1   (int)
  features/libraries get_features()/get_libraries()      == the android:name values, verbatim (they are not class names)
Out of scope by construction: MAIN and LAUNCHER split over two filters of one component, SDK versions given as
codenames or hex, resource references as values, an empty android:versionName (reported as None, not distinguished
from an absent one), <uses-permission-sdk-23> (androguard has no query for it), duplicate component names, manifests
without package.
"""
import traceback
from collections import Counter
from vf.core.runner import hyp_collect, HarnessError
from vf.gen import manifestgen as G
from vf.model import manifest as M

PROPERTY = 'C31'
LEVEL = 'exploration'
RULE = ('random manifest model (package, versionCode/Name, 0..7 uses-permission with duplicates and maxSdkVersion, uses-sdk '
        'with any subset of min/target/max, uses-feature, uses-library, declared permissions, 0..6 components of the five '
        'kinds named .Rel / Bare / fully.Qualified with 0..3 intent filters carrying MAIN and LAUNCHER together, alone or not '
        'at all, enabled true/false/absent; element order permuted; UTF-8 or UTF-16 pool; attribute names optionally '
        'blanked so that only the resource id identifies them) -> binary XML -> APK -> 17 APK queries compared with the '
        'reference model; plus a seed-independent grid of 464 one-component manifests (kind x name form x MAIN/LAUNCHER '
        'distribution x enabled), all uses-sdk subsets and duplicate-permission patterns. non-trivial = >=1 relative (.Rel or Bare) component name and >=1 duplicated permission; '
        'distinct = binary manifest bytes')
ASSUMPTIONS = ['vf/gen/axmlgen.py writes well-formed binary XML; vf/gen/zipgen.py (Python zipfile) writes well-formed archives',
               'vf/model/manifest.py restates PackageParser.buildClassName, the launcher rule (one filter with MAIN and LAUNCHER, '
               'component not android:enabled="false") and the uses-sdk defaults (target -> min -> 1)',
               'integer attributes are TYPE_INT_DEC and booleans TYPE_INT_BOOLEAN as aapt writes them; numeric queries are '
               'compared with the decimal text of the value',
               'alias names appearing in get_activities() would be tolerated; get_main_activities() may return raw or completed names']


# ---------------------------------------------------------------------------------------------------
def _str(v):
    return None if v is None else '%d' % v


def _diff(exp, got):
    e, g = Counter(exp), Counter(got)
    return sorted((e - g).elements()), sorted((g - e).elements())


def _completed_shape(pkg, missing, extra):
    """every surplus value is the component-name completion of a missing plain value (and nothing else differs)"""
    if not missing or len(missing) != len(extra):
        return False
    if not all(G.is_plain(x) for x in missing):
        return False
    return sorted(M.complete_name(pkg, x) for x in missing) == sorted(extra)


def observe(ctx, case, apk_bytes):
    """-> dict query -> value, or None when construction failed"""
    from androguard.core.apk import APK
    try:
        a = APK(apk_bytes, raw=True)
    except Exception:
        ctx.fail('exception:APK', case, traceback.format_exc())
        return None
    obs = {}
    queries = [
        ('package', a.get_package), ('version_code', a.get_androidversion_code), ('version_name', a.get_androidversion_name),
        ('permissions', a.get_permissions), ('uses_permissions', lambda: a.uses_permissions),
        ('activities', a.get_activities), ('services', a.get_services), ('receivers', a.get_receivers),
        ('providers', a.get_providers), ('main_activities', a.get_main_activities), ('main_activity', a.get_main_activity),
        ('min_sdk', a.get_min_sdk_version), ('target_sdk', a.get_target_sdk_version), ('max_sdk', a.get_max_sdk_version),
        ('effective_target_sdk', a.get_effective_target_sdk_version), ('features', a.get_features),
        ('libraries', a.get_libraries), ('valid', a.is_valid_APK)]
    def other_queries():
        return [a.get_app_name, a.get_app_icon, a.get_activity_aliases, a.is_androidtv, a.is_wearable, a.is_leanback,
                a.is_multidex, a.get_declared_permissions, a.get_requested_aosp_permissions, a.get_requested_third_party_permissions,
                lambda: list(a.get_all_attribute_value('activity', 'name', enabled='false')),
                lambda: list(a.get_all_attribute_value('service', 'name', exported='true')),
                lambda: list(a.get_all_attribute_value('uses-permission', 'name', maxSdkVersion='18')),
                lambda: list(a.get_all_attribute_value('uses-library', 'name', required='false')),
                lambda: a.get_attribute_value('application', 'label')]
    if len(apk_bytes) % 3 == 0:
        # on a fresh object, narrower (filtered) queries come first: the listed queries that follow must not be
        # affected by them
        ctx.count('filtered_queries_before_first_round')
        for other in other_queries():
            try:
                other()
            except Exception:
                ctx.count('history_other_query_raised')

    def norm(v):
        return sorted(v) if isinstance(v, (set, frozenset)) else (list(v) if isinstance(v, (list, tuple)) else v)
    for name, fn in queries:
        try:
            obs[name] = norm(fn())
        except Exception:
            ctx.fail('exception:%s' % name, case, traceback.format_exc())
            obs[name] = ('<exception>',)
    # history: the answers must not depend on which other queries were made before on the same object, nor on the order.
    # Other read-only queries are made (application label / icon go through the launcher lookup), then every query is
    # repeated in a rotated order and must answer as it did the first time.
    others = other_queries()
    for other in others:
        if other is None:
            continue
        try:
            other()
        except Exception:
            ctx.count('history_other_query_raised')
    k = len(apk_bytes) % len(queries)
    for name, fn in queries[k:] + queries[:k]:
        if obs[name] == ('<exception>',):
            continue
        try:
            again = norm(fn())
        except Exception:
            ctx.fail('history:exception:%s' % name, case, traceback.format_exc())
            continue
        if again != obs[name] and not (isinstance(again, list) and sorted(map(repr, again)) == sorted(map(repr, obs[name]))):
            ctx.fail('history:%s' % name, dict(case, first=repr(obs[name]), again=repr(again)),
                     '%s answered %r, and %r when asked again after get_app_name()/get_app_icon() and the other queries'
                     % (name, obs[name], again))
    ctx.count('queries_repeated_after_other_queries')
    return obs


def check_model(ctx, m, record=True, apk_bytes=None):
    bad = M.well_formed(m)
    if bad:
        raise HarnessError('generator produced an ill-formed manifest model: %s' % bad)
    axml = G.to_axml(m)
    if apk_bytes is None:
        apk_bytes = G.to_apk(m, axml)
    exp = M.expected(m)
    pkg = m['package']
    forms = sorted({M.name_form(c['name']) for c in m['components']})
    dup = M.has_duplicate_permission(m)
    plain = {'perm': any(G.is_plain(p['name']) for p in m['permissions']),
             'feature': any(G.is_plain(f['name']) for f in m['features']),
             'lib': any(G.is_plain(l['name']) for l in m['libraries'])}
    nmain = len(exp['main_activities'])
    if record:
        u = m['uses_sdk']
        sdk_label = 'uses-sdk:absent' if u is None else 'uses-sdk:' + ('+'.join(k for k in ('min', 'target', 'max') if u[k] is not None) or 'empty')
        labels = ['form:' + f for f in forms] + [sdk_label, 'main:%s' % ('0' if nmain == 0 else '1' if nmain == 1 else '2+'),
                                                   'pool:utf8' if m['layout']['utf8'] else 'pool:utf16']
        if dup:
            labels.append('perm:duplicate')
        if len({(p['name']) for p in m['permissions']}) < len({(p['name'], p['max_sdk']) for p in m['permissions']}):
            labels.append('perm:duplicate-different-maxsdk')
        if any(p['max_sdk'] is not None for p in m['permissions']):
            labels.append('perm:maxsdk')
        labels += ['plain-name:' + k for k, v in plain.items() if v]
        if any(c.get('enabled') is False and any(M.filter_is_launcher(f) for f in c['filters']) for c in m['components']
               if c['kind'] in ('activity', 'activity-alias')):
            labels.append('main:disabled-launcher')
        if any(any(M.filter_is_launcher(f) for f in c['filters']) for c in m['components']
               if c['kind'] not in ('activity', 'activity-alias')):
            labels.append('main:launcher-filter-on-non-activity')
        if any(c['kind'] == 'activity-alias' and M.is_main(c) for c in m['components']):
            labels.append('main:alias')
        if any(not any(M.filter_is_launcher(f) for f in c['filters']) and
               (any(M.ACTION_MAIN in f['actions'] for f in c['filters']) or
                any(M.CATEGORY_LAUNCHER in f['categories'] for f in c['filters']))
               for c in m['components'] if c['kind'] in ('activity', 'activity-alias')):
            labels.append('main:half-only')
        if m['layout'].get('blank_names'):
            labels.append('attr-names:blank')
        for k in M.KINDS:
            if any(c['kind'] == k for c in m['components']):
                labels.append('kind:' + k)
        ctx.case(nontrivial=bool(dup and ('rel' in forms or 'bare' in forms)), key=axml, labels=labels,
                 sample={'package': pkg, 'components': [(c['kind'], c['name']) for c in m['components']],
                         'permissions': [(p['name'], p['max_sdk']) for p in m['permissions']], 'uses_sdk': m['uses_sdk'],
                         'expected_main': exp['main_activities']})
    case = {'model': m, 'apk': apk_bytes, 'expected': exp}
    obs = observe(ctx, case, apk_bytes)
    if obs is None:
        return
    case = dict(case, observed=obs)

    def scalar(clause, key, want):
        if obs[key] == ('<exception>',):
            return
        ctx.check(obs[key] == want and type(obs[key]) is type(want), clause, case,
                  '%s: observed %r, manifest declares %r' % (key, obs[key], want))

    ctx.check(obs['valid'] is True, 'valid', case, 'is_valid_APK() is %r for a well-formed manifest' % (obs['valid'],))
    scalar('package', 'package', pkg)
    scalar('version_code:%s' % ('absent' if m['version_code'] is None else 'present'), 'version_code', _str(m['version_code']))
    scalar('version_name:%s' % ('absent' if m['version_name'] is None else 'present'), 'version_name', m['version_name'])
    for key in ('min_sdk', 'target_sdk', 'max_sdk'):
        scalar('sdk:%s:%s' % (key, 'absent' if exp[key] is None else 'present'), key, _str(exp[key]))
    u = m['uses_sdk'] or {}
    scalar('effective_target:%s' % ('target' if u.get('target') is not None else 'min' if u.get('min') is not None else 'default'),
           'effective_target_sdk', exp['effective_target_sdk'])

    def multiset(clause, key, want, tolerate=()):
        got = obs[key]
        if got == ('<exception>',):
            return
        if not isinstance(got, list) or not all(isinstance(x, str) for x in got):
            ctx.fail('%s:type' % clause, case, '%s: observed %r is not a list of strings' % (key, got))
            return
        got = [x for x in got if x not in tolerate]
        missing, extra = _diff(want, got)
        if not missing and not extra:
            return
        if _completed_shape(pkg, missing, extra):
            cls = 'plain-name-completed'
        elif not missing and set(extra) <= set(want):
            cls = 'not-deduplicated'
        else:
            cls = 'other'
        ctx.fail('%s:%s' % (clause, cls), dict(case, missing=missing, surplus=extra),
                 '%s: manifest declares %r, observed %r (missing %r, surplus %r)' % (key, sorted(want), sorted(got), missing, extra))

    multiset('permissions', 'permissions', exp['permissions'])
    multiset('features', 'features', exp['features'])
    multiset('libraries', 'libraries', exp['libraries'])
    aliases = [M.complete_name(pkg, c['name']) for c in m['components'] if c['kind'] == 'activity-alias']
    if obs['activities'] != ('<exception>',) and isinstance(obs['activities'], list) and set(aliases) & set(obs['activities']):
        ctx.count('alias_in_get_activities_tolerated')

    def comp_clause(key, kind, tolerate=()):
        got = obs[key]
        if got == ('<exception>',):
            return
        if not isinstance(got, list) or not all(isinstance(x, str) for x in got):
            ctx.fail('components:%s:type' % kind, case, '%s: observed %r is not a list of strings' % (key, got))
            return
        got = [x for x in got if x not in tolerate]
        missing, extra = _diff(exp[key], got)
        if missing or extra:
            involved = sorted({M.name_form(c['name']) for c in m['components']
                               if c['kind'] == kind and M.complete_name(pkg, c['name']) in missing}) or ['surplus']
            ctx.fail('components:%s:%s' % (kind, '+'.join(involved)), dict(case, missing=missing, surplus=extra),
                     '%s: manifest declares %r, observed %r' % (key, sorted(exp[key]), sorted(got)))
    comp_clause('activities', 'activity', tolerate=aliases)
    comp_clause('services', 'service')
    comp_clause('receivers', 'receiver')
    comp_clause('providers', 'provider')

    # requested permissions with their maxSdkVersion
    up = obs['uses_permissions']
    if up != ('<exception>',):
        ok_shape = isinstance(up, list) and all(isinstance(x, (list, tuple)) and len(x) == 2 for x in up)
        if not ok_shape:
            ctx.fail('permission_maxsdk:type', case, 'uses_permissions: %r' % (up,))
        else:
            got = {(x[0], x[1]) for x in up}
            want = M.permission_requests(m)
            if got != want:
                names_equal = {x[0] for x in got} == {x[0] for x in want}
                ctx.fail('permission_maxsdk:%s' % ('maxsdk' if names_equal else 'names'),
                         dict(case, missing=sorted(want - got, key=repr), surplus=sorted(got - want, key=repr)),
                         'uses_permissions: manifest declares %r, observed %r' % (sorted(want, key=repr), sorted(got, key=repr)))

    # main activity
    want_main = set(exp['main_activities'])
    mas = obs['main_activities']
    if mas != ('<exception>',):
        if not isinstance(mas, list) or not all(isinstance(x, str) and x for x in mas):
            ctx.fail('main:set:type', case, 'get_main_activities(): %r' % (mas,))
        else:
            got = {M.complete_name(pkg, x) for x in mas}
            if got != want_main:
                cls = 'surplus' if got > want_main else 'missing' if got < want_main else 'other'
                ctx.fail('main:set:%s' % cls, dict(case, missing=sorted(want_main - got), surplus=sorted(got - want_main)),
                         'get_main_activities(): completed %r, manifest declares %r' % (sorted(got), sorted(want_main)))
    ma = obs['main_activity']
    if ma != ('<exception>',):
        if not want_main:
            ctx.check(ma is None, 'main:one:none-declared', case,
                      'get_main_activity() = %r, the manifest declares no launcher activity' % (ma,))
        else:
            ok = ctx.check(ma in want_main, 'main:one:%s' % ('single' if len(want_main) == 1 else 'several'), case,
                           'get_main_activity() = %r, launcher activities declared: %r' % (ma, sorted(want_main)))
            declared = set(exp.get('main_declared_activities', ()))
            if ok and declared:
                # "main activity": when a real <activity> is a launcher entry, an <activity-alias> is not the main activity
                ctx.check(ma in declared, 'main:one:alias-preferred-over-activity', case,
                          'get_main_activity() = %r is an activity-alias although launcher <activity> elements exist: %r'
                          % (ma, sorted(declared)))


def _fn(ctx, m):
    check_model(ctx, m)


def grid():
    """small systematic grid (deterministic, seed-independent): one component per manifest over kind x name form x
    MAIN/LAUNCHER distribution x enabled; every subset of uses-sdk attributes with distinct values; duplicate-permission
    patterns with and without maxSdkVersion"""
    both = {'actions': [M.ACTION_MAIN], 'categories': [M.CATEGORY_LAUNCHER]}
    main_only = {'actions': [M.ACTION_MAIN], 'categories': ['android.intent.category.DEFAULT']}
    launcher_only = {'actions': ['android.intent.action.VIEW'], 'categories': [M.CATEGORY_LAUNCHER]}
    other = {'actions': ['android.intent.action.VIEW'], 'categories': []}
    modes = {'both': [both], 'other+both': [other, both], 'main-only': [main_only], 'launcher-only': [launcher_only],
             'main-only-twice': [main_only, main_only], 'none': []}
    for kind in M.KINDS:
        for name in ('.Rel', '.sub.Rel', 'Bare', 'other.pkg.Qualified', 'com.ex.app.Own'):
            for mode, filters in sorted(modes.items()):
                for enabled in (None, True, False):
                    c = {'kind': kind, 'name': name, 'enabled': enabled, 'filters': [dict(f) for f in filters]}
                    if kind == 'activity-alias':
                        c['target'] = '.Target'
                    if kind == 'provider':
                        c['authorities'] = 'com.ex.app.auth'
                    extra = [{'kind': 'activity', 'name': '.Target', 'filters': []}]
                    yield G.minimal('com.ex.app', components=[c] + extra,
                                    permissions=[{'name': 'android.permission.INTERNET'}, {'name': 'android.permission.INTERNET'}])
    for mn in (None, 5):
        for tg in (None, 17):
            for mx in (None, 29):
                yield G.minimal('com.ex.app', uses_sdk={'min': mn, 'target': tg, 'max': mx},
                                components=[{'kind': 'service', 'name': 'Svc', 'filters': []}],
                                permissions=[{'name': 'a.b.P', 'max_sdk': 3}, {'name': 'a.b.P', 'max_sdk': 3}])
    yield G.minimal('com.ex.app', uses_sdk=None)
    for pat in ([('a.P', None), ('a.P', None)], [('a.P', 18), ('a.P', None)], [('a.P', 18), ('a.Q', 19), ('a.P', 18)],
                [('a.P', 18), ('a.P', 19)], [('a.P', None), ('a.Q', 22), ('a.R', None), ('a.Q', 22), ('a.Q', 23)]):
        yield G.minimal('com.ex.app', uses_sdk={'min': 4, 'target': None, 'max': 30},
                        permissions=[{'name': n, 'max_sdk': v} for (n, v) in pat],
                        components=[{'kind': 'receiver', 'name': '.R', 'filters': []}])


def shards(tier, seed):
    return [('hyp', k) for k in range(16 if tier == 'quick' else 32)] + [('grid',)]


QUICK_N, THOROUGH_N = 400, 3000     # examples per hyp shard


def run_shard(ctx, shard):
    if shard[0] == 'grid':
        for m in grid():
            check_model(ctx, m)
            ctx.label('grid')
        return
    n = QUICK_N if ctx.tier == 'quick' else THOROUGH_N
    hyp_collect(ctx, G.manifests(), _fn, n, salt=shard[1], shrink_examples=300)


def replay(ctx, case):
    """re-evaluate on the stored APK bytes when present (they are what was generated), else rebuild from the model"""
    check_model(ctx, case['model'], record=False, apk_bytes=case.get('apk'))


MATCHERS = {}
