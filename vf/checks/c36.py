"""C36 — concurrent sessions on one database get distinct identifiers.

Every interleaving of the two database steps of `Session.__init__` (R = count the rows of table
`session`, the identifier read; I = insert the session row) of 2 sessions (6 schedules) and of
3 sessions (90 schedules) is enumerated and *replayed against the real code*: every session lives in
its own freshly started Python process, all of them open one SQLite file, and the harness owns the
schedule. In the child only, `dataset.Table.count` / `dataset.Table.insert` are wrapped so that a call
on table `session` announces itself on a pipe and blocks until the parent releases it; the parent
releases exactly the next step of the schedule and waits for that step to complete.

Oracle (the statement): every `Session()` returns, and the identifiers of all sessions on that
database (the n concurrent ones and the sequential one that created the file) are pairwise distinct
and each has its own row in table `session` (rows are read back with the stdlib sqlite3 module).

Soundness: a failure is only ever reported for something the real code did in real processes on a
real database file. The harness never holds a child at a gate while another child waits inside a
database call: when a released step does not complete within T_STEP (SQLite locking can legitimately
block it) the controller stops scheduling and lets every child run freely; such a run is counted as
`lock_contention_free_run`, and a "database is locked" error in it is inconclusive, not a violation.
Parent-side time-outs (child does not start / never finishes) are harness errors (exit 2).

Child mode:  python -m vf.checks.c36 --child   (commands on stdin: 'S <db_url>' create a session, 'go' release a gate, 'Q' quit)
"""
import gc
import json
import os
import select
import shutil
import sqlite3
import subprocess
import sys
import tempfile
import time
import traceback

PROPERTY = 'C36'
LEVEL = 'exploration'
RULE = ('all interleavings of the steps R (row count of table session = identifier read) and I (insert of the session '
        'row) of 2 sessions (6) and 3 sessions (90), each replayed against the real Session.__init__ in separate '
        'freshly started processes on one SQLite file prepared by one sequential session; thorough adds a seeded sample of '
        '4-session interleavings. non-trivial = the schedule lets a second session read before a session that has read '
        'inserts (a reference model of "id = row count" predicts a collision); distinct = the schedule')
ASSUMPTIONS = ['the schedule is owned at the granularity of dataset.Table.count / dataset.Table.insert on table "session"; '
               'SQLite-internal locking and concurrent creation of the database file/tables are not explored',
               'gates are installed harness-side in the child processes only (monkeypatch of dataset.Table), /repo is untouched',
               'an implementation that does not go through Table.count/Table.insert is still run concurrently and checked, '
               'but its interleavings are then not controlled (see traces_validated_against_impl)']

T_START = 900.0     # child start-up (python + import androguard.session)
T_STEP = 2.0        # a released step normally completes in milliseconds; beyond this: lock contention, free run
T_TOTAL = 120.0     # whole schedule


def EXHAUSTIVE(tier):
    return True


def EXTRA_COVERAGE(m):
    ex = m['extra']
    return {'schedules_replayed': ex.get('schedules', 0),
            'traces_validated_against_impl': ex.get('trace_matches_model_steps', 0),
            'exhaustive_component': 'interleavings of (R, I) for 2 and 3 sessions: 6 + 90 schedules, all replayed'}


# -- schedules and the reference model ----------------------------------------------------------

def schedules(n):
    """All interleavings of R_i < I_i for i < n, as tuples of (session, step), in a fixed order."""
    out = []

    def rec(prefix, state):
        if all(s == 2 for s in state):
            out.append(tuple(prefix))
            return
        for i in range(n):
            if state[i] < 2:
                st = list(state)
                st[i] += 1
                rec(prefix + [(i, 'RI'[state[i]])], st)
    rec([], [0] * n)
    return out


def sched_str(s):
    return ' '.join('%s%d' % (step, i) for i, step in s)


def model(s, existing=1):
    """Reference model of 'identifier = number of rows, then insert that identifier':
    returns (racy, ids) where ids[i] is the id session i gets or None when its insert collides."""
    rows = set(range(existing))
    read = {}
    ids = {}
    for i, step in s:
        if step == 'R':
            read[i] = len(rows)
        else:
            if read[i] in rows:
                ids[i] = None
            else:
                rows.add(read[i])
                ids[i] = read[i]
    racy = False
    pending = set()
    for i, step in s:
        if step == 'R':
            if pending:
                racy = True
            pending.add(i)
        else:
            pending.discard(i)
    return racy, ids


# -- child ---------------------------------------------------------------------------------------

def child_main():
    proto_out = os.fdopen(os.dup(1), 'w')
    os.dup2(2, 1)               # nothing else may write on the protocol channel
    proto_in = sys.stdin

    def send(obj):
        proto_out.write(json.dumps(obj) + '\n')
        proto_out.flush()

    def wait_go():
        line = proto_in.readline()
        if not line:
            os._exit(3)          # parent went away

    try:
        from loguru import logger
        logger.remove()
    except Exception:
        pass
    import dataset.table as T
    orig_count, orig_insert = T.Table.count, T.Table.insert

    def count(self, *a, **k):
        if self.name == 'session':
            send({'ev': 'gate', 'step': 'R'})
            wait_go()
        return orig_count(self, *a, **k)

    def insert(self, row, *a, **k):
        if self.name == 'session':
            send({'ev': 'gate', 'step': 'I'})
            wait_go()
        return orig_insert(self, row, *a, **k)

    T.Table.count = count
    T.Table.insert = insert
    from androguard.session import Session
    import androguard
    send({'ev': 'ready', 'androguard': os.path.dirname(os.path.abspath(androguard.__file__))})
    while True:
        line = proto_in.readline()
        if not line or line.startswith('Q'):
            break
        assert line.startswith('S '), line
        url = line[2:].rstrip('\n')
        s = None
        try:
            s = Session(db_url=url)
            sid = s.session_id
            send({'ev': 'done', 'id': sid if isinstance(sid, int) and not isinstance(sid, bool) else None, 'repr': repr(sid)})
        except Exception as e:
            send({'ev': 'exc', 'type': type(e).__name__, 'msg': str(e)[:300], 'text': traceback.format_exc()[-1500:]})
        # harness-side clean-up so that a reused child holds no connection to the finished schedule's file
        try:
            if s is not None:
                s.db.close()
        except Exception:
            pass
        del s
        gc.collect()
    proto_out.close()
    os._exit(0)


# -- parent-side controller ----------------------------------------------------------------------

class _Child:
    def __init__(self):
        self.p = subprocess.Popen([sys.executable, '-m', 'vf.checks.c36', '--child'],
                                  stdin=subprocess.PIPE, stdout=subprocess.PIPE, stderr=subprocess.DEVNULL,
                                  bufsize=0, close_fds=True)
        self.buf = b''
        self.state = 'starting'    # starting | idle | running | gate:R | gate:I | done | exc | dead
        self.result = None
        self.trace = []            # gates actually passed in the current schedule
        self.where = None

    def fileno(self):
        return self.p.stdout.fileno()

    def _write(self, line):
        try:
            self.p.stdin.write(line)
        except (BrokenPipeError, OSError):
            self.state = 'dead'
            return
        self.state = 'running'

    def start_session(self, url):
        assert '\n' not in url
        self.result = None
        self.trace = []
        self._write(('S %s\n' % url).encode())

    def go(self):
        self._write(b'go\n')

    def feed(self):
        data = os.read(self.fileno(), 65536)
        if not data:
            self.state = 'dead'
            return
        self.buf += data
        while b'\n' in self.buf:
            line, self.buf = self.buf.split(b'\n', 1)
            ev = json.loads(line)
            if ev['ev'] == 'ready':
                self.state = 'idle'
                self.where = ev['androguard']
            elif ev['ev'] == 'gate':
                self.state = 'gate:' + ev['step']
            elif ev['ev'] in ('done', 'exc'):
                self.state = ev['ev']
                self.result = ev

    def close(self):
        try:
            if self.p.poll() is None and self.state in ('idle', 'done', 'exc'):
                self.p.stdin.write(b'Q\n')
                self.p.wait(timeout=5)
        except (OSError, subprocess.TimeoutExpired):
            pass
        try:
            self.p.kill()
        except OSError:
            pass
        for f in (self.p.stdin, self.p.stdout):
            try:
                f.close()
            except OSError:
                pass
        self.p.wait()


def _pump(children, until, timeout):
    """Read child events until `until()` is true or the timeout expires. Returns until()."""
    from vf.core.runner import HarnessError
    deadline = time.monotonic() + timeout
    while not until():
        left = deadline - time.monotonic()
        if left <= 0:
            break
        r, _, _ = select.select(children, [], [], min(left, 0.5))
        for c in r:
            c.feed()
        if any(c.state == 'dead' for c in children):
            raise HarnessError('C36 child process died without reporting a result')
    return until()


def spawn(n):
    from vf.core.runner import HarnessError
    children = [_Child() for _ in range(n)]
    try:
        if not _pump(children, lambda: all(c.state == 'idle' for c in children), T_START):
            raise HarnessError('C36 children did not start within %.0f s' % T_START)
        repo = os.path.realpath(os.environ.get('VERIF_REPO', '/repo'))
        for c in children:
            if not os.path.realpath(c.where).startswith(repo + os.sep):
                raise HarnessError('child imported androguard from %s, not from %s' % (c.where, repo))
    except BaseException:
        for c in children:
            c.close()
        raise
    return children


def run_schedule(workdir, n, sched, children):
    """Replay one schedule on idle children. Returns dict(results, rows, init_id, followed, contention, traces)."""
    from vf.core.runner import HarnessError
    assert len(children) == n and all(c.state in ('idle', 'done', 'exc') for c in children)
    d = tempfile.mkdtemp(prefix='db', dir=workdir)
    path = os.path.join(d, 's.db')
    url = 'sqlite:///' + path
    try:
        # the database file and its tables are created beforehand by one sequential session
        from androguard.session import Session
        s0 = Session(db_url=url)
        init_id = s0.session_id
        s0.db.close()
        del s0
        t_begin = time.monotonic()
        for c in children:
            c.start_session(url)         # enter Session.__init__; each runs up to its first gate
        followed = True                  # every scheduled step was found at its gate and completed in order
        contention = False
        for (i, step) in sched:
            c = children[i]
            _pump(children, lambda: c.state != 'running', T_STEP)
            if c.state == 'running':     # blocked inside a database call
                contention = True
                break
            if c.state == 'gate:' + step:
                c.trace.append(step)
                c.go()
                _pump(children, lambda: c.state != 'running', T_STEP)
                if c.state == 'running':
                    contention = True
                    break
            else:
                followed = False         # the implementation has no such step here (other gate, or finished)
        # drain: steps beyond the modelled R, I (a retry after a conflict, ...) are single-stepped in lock-step
        # round-robin order - every waiting process moves one step before any moves a second one - which is
        # deterministic and keeps the windows of the retries overlapping. After lock contention: free run.
        finished = lambda: all(c.state in ('done', 'exc') for c in children)
        while not finished():
            left = T_TOTAL - (time.monotonic() - t_begin)
            if left <= 0:
                raise HarnessError('C36 schedule %s did not finish within %.0f s (states %r)' % (
                    sched_str(sched), T_TOTAL, [c.state for c in children]))
            waiting = [c for c in children if c.state.startswith('gate:')]
            if contention:
                for c in waiting:
                    c.trace.append(c.state[5:])
                    c.go()
                _pump(children, lambda: finished() or any(c.state.startswith('gate:') for c in children), min(left, 1.0))
            elif not waiting:
                _pump(children, lambda: finished() or any(c.state.startswith('gate:') for c in children), min(left, 1.0))
            else:
                followed = False          # the implementation takes steps the model does not have
                for c in waiting:
                    c.trace.append(c.state[5:])
                    c.go()
                    _pump(children, lambda: c.state != 'running', T_STEP)
                    if c.state == 'running':
                        contention = True
                        break
        results = [c.result for c in children]
        traces = [''.join(c.trace) for c in children]
        con = sqlite3.connect(path, timeout=30)
        try:
            rows = [r[0] for r in con.execute('SELECT id FROM session')]
        finally:
            con.close()
        return dict(results=results, rows=rows, init_id=init_id, followed=followed and not contention,
                    contention=contention, traces=traces)
    finally:
        shutil.rmtree(d, ignore_errors=True)


def evaluate(ctx, workdir, n, sched, children=None, mode='fresh'):
    sched = tuple((int(i), str(s)) for i, s in sched)
    racy, predicted = model(sched)
    own = children is None
    if own:
        children = spawn(n)
        ctx.count('processes_started', n)
    try:
        out = run_schedule(workdir, n, sched, children)
    finally:
        if own:
            for c in children:
                c.close()
    res = out['results']
    ids = [r.get('id') if r['ev'] == 'done' else None for r in res]
    shape = 'racy' if racy else 'serial'
    matches = out['followed'] and all(t == 'RI' for t in out['traces'])
    ctx.case(nontrivial=racy, key=(n, sched_str(sched)),
             labels=['n%d' % n, 'n%d:%s' % (n, shape), 'processes:' + mode,
                     'replayed-as-scheduled' if out['followed'] else 'not-as-scheduled'],
             sample={'n': n, 'schedule': sched_str(sched), 'ids': ids, 'rows': sorted(out['rows'], key=repr)})
    ctx.count('schedules')
    if matches:
        ctx.count('trace_matches_model_steps')
        # informative only: does the observed outcome equal what the count-then-insert model predicts?
        if [predicted[i] for i in range(n)] == [x if x is None else x - out['init_id'] for x in ids]:
            ctx.count('outcome_equals_count_then_insert_model')
    if out['contention']:
        ctx.count('lock_contention_free_run')
    observed = {'results': [dict(ev=r['ev'], id=r.get('id'), repr=r.get('repr'), type=r.get('type')) for r in res],
                'rows': out['rows'], 'init_id': out['init_id'], 'traces': out['traces'],
                'followed': out['followed'], 'contention': out['contention']}
    case = {'n': n, 'schedule': [[i, s] for i, s in sched], 'schedule_str': sched_str(sched), 'observed': observed,
            'model_predicts_for_count_then_insert': {'racy': racy, 'ids': [predicted[i] for i in range(n)]}}
    for i, r in enumerate(res):
        if r['ev'] == 'exc':
            if out['contention'] and 'database is locked' in r.get('text', ''):
                ctx.count('inconclusive_locked_under_harness_hold')
                continue
            ctx.fail('returns:exception:%s:n%d:%s' % (r['type'], n, shape), case,
                     'schedule %s: Session() of process %d raised %s: %s\n%s' % (
                         sched_str(sched), i, r['type'], r.get('msg', ''), r.get('text', '')))
        elif r.get('id') is None:
            ctx.fail('id:not-an-int:n%d' % n, case, 'schedule %s: session_id of process %d is %s' % (sched_str(sched), i, r.get('repr')))
    got = [x for x in ids if x is not None]
    allids = got + [out['init_id']]
    ctx.check(len(set(allids)) == len(allids), 'distinct:session_id:n%d:%s' % (n, shape), case,
              'schedule %s: session ids %r (sequential first session: %r) are not pairwise distinct' % (
                  sched_str(sched), ids, out['init_id']))
    if all(r['ev'] == 'done' for r in res):
        rows = out['rows']
        ctx.check(len(rows) == len(set(rows)) == n + 1 and set(rows) == set(allids),
                  'rows:n%d:%s' % (n, shape), case,
                  'schedule %s: table session holds ids %r, sessions have %r' % (sched_str(sched), rows, allids))


# -- check interface -----------------------------------------------------------------------------

N4_SAMPLE = 600


def _pool_of(n, tier, seed):
    if n < 4:
        return schedules(n)
    import random
    return random.Random(seed * 7919 + 36).sample(schedules(4), N4_SAMPLE)


def shards(tier, seed):
    """(mode, n, j, k): the schedules _pool_of(n)[j::k].
    mode 'fresh': a new set of n processes for every schedule (all 2-session schedules and, in thorough, all
    3-session schedules). mode 'reuse': n processes started once per shard; each schedule still runs its n sessions
    in n different processes on a new database file."""
    sh = [('fresh', 2, j, 3) for j in range(3)]
    if tier == 'quick':
        sh += [('reuse', 3, j, 6) for j in range(6)]
    else:
        sh += [('fresh', 3, j, 15) for j in range(15)]
        sh += [('reuse', 3, j, 3) for j in range(3)]
        sh += [('reuse', 4, j, 10) for j in range(10)]
    return sh


def run_shard(ctx, shard):
    mode, n, j, k = shard
    scheds = _pool_of(n, ctx.tier, ctx.seed)[j::k]
    work = tempfile.mkdtemp(prefix='vf-c36-')
    children = None
    try:
        if mode == 'reuse':
            children = spawn(n)
            ctx.count('processes_started', n)
        for sched in scheds:
            evaluate(ctx, work, n, sched, children, mode)
    finally:
        for c in children or ():
            c.close()
        shutil.rmtree(work, ignore_errors=True)


def replay(ctx, case):
    work = tempfile.mkdtemp(prefix='vf-c36-')
    try:
        evaluate(ctx, work, int(case['n']), case['schedule'])
    finally:
        shutil.rmtree(work, ignore_errors=True)


MATCHERS = {}


if __name__ == '__main__':
    if len(sys.argv) == 2 and sys.argv[1] == '--child':
        child_main()
    else:
        sys.exit('usage: python -m vf.checks.c36 --child')
