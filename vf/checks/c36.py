"""C36 — concurrent sessions on one database get distinct identifiers.

Schedule enumeration at the level of SQL statements, implementation-agnostic: every session lives in its
own Python process, all of them open one SQLite file, and the harness owns the schedule. In the child
only, a SQLAlchemy `before_cursor_execute` listener on the Engine class (dataset is built on SQLAlchemy)
turns every statement that mentions table `session` - reflection PRAGMAs, sqlite_master look-ups for it,
SELECT, INSERT, UPDATE, ALTER TABLE, ... whatever `Session.__init__` happens to issue - into one *step*:
the child announces the statement on a pipe and blocks until the parent releases it. BEGIN/COMMIT and
statements on other tables are not gated; they run together with the step that precedes them. How many
steps a session has is not assumed: it is observed (a child that finishes simply stops consuming steps).

Schedules (list of segments "child x count", count * = until that child has finished; what is left after
the last segment is single-stepped in lock-step round-robin):
  n = 2   every interleaving when the observed step counts make that <= CAP_ALL schedules; otherwise
          exhaustively every schedule with at most two pre-emptions (X runs k steps, Y runs j steps, X runs
          to completion, Y finishes; all k, j), every lock-step schedule with a head start of d steps, and a
          Hypothesis-drawn sample of arbitrary interleavings (seeded from VERIF_SEED); thorough adds all
          three-pre-emption schedules and a larger sample;
  n = 3   lock-step with head starts, all one-pre-emption schedules, a Hypothesis-drawn sample (more in
          thorough, plus sampled nested pre-emptions and a 4-session sample).
Every schedule is run against two well-formed databases: (current) one created by one sequential session
of the code under test, (legacy) one in the layout written by the earlier androguard versions, created
with the stdlib sqlite3 module: WAL journal, `CREATE TABLE session (id INTEGER NOT NULL, PRIMARY KEY (id))`
and nothing else (the information/pentest/system tables are only created on their first insert), holding
the rows 0 and 1 that two sessions of those versions wrote.

Oracle (the statement): every `Session()` returns, the identifiers are integers, pairwise distinct and
distinct from the rows that were in the database before, and each identifier has a row in table `session`
(rows are read back with the stdlib sqlite3 module).

Soundness: a failure is only ever reported for something the real code did in real processes on a real
database file; holding a process between two of its statements is something the operating system's
scheduler may do as well. The harness never holds a child at a gate while another child waits inside a
database call: when a released step does not complete within T_STEP (SQLite locking can legitimately
block it) the controller stops scheduling and lets every child run freely; such a run is counted as
`lock_contention_free_run`, and a "database is locked" error in it is inconclusive, not a violation.
Parent-side time-outs (child does not start / never finishes) are harness errors (exit 2).

Session processes are forked from the harness process after androguard has been imported (start-up in milliseconds);
no database connection is open in the harness process at that moment, everything inherited except the two protocol
pipes is closed in the child (commands: 'S <db_url>' create a session, 'go' release a gate, 'Q' quit).
"""
import gc
import itertools
import json
import os
import re
import select
import shutil
import sqlite3
import sys
import tempfile
import time
import traceback
from math import comb

PROPERTY = 'C36'
LEVEL = 'exploration'
RULE = ('schedules over the SQL statements on table "session" that Session.__init__ issues (one statement = one step, '
        'gated in each child process by a SQLAlchemy before_cursor_execute listener; the number of steps per session is '
        'observed, not assumed). 2 sessions: all interleavings if there are at most 400, else all schedules with <= 2 '
        'pre-emptions (a seeded sample of them when a session has so many steps that they exceed the cap) + all lock-step schedules with a head start + Hypothesis-drawn interleavings; 3 sessions: lock-step '
        'with head starts + all 1-pre-emption schedules + Hypothesis-drawn interleavings. Each schedule is replayed against '
        'the real code in separate OS processes (forked per shard, one per session) on one SQLite file, once on a database created by a sequential session of the '
        'code under test and once on a database in the layout earlier androguard versions wrote. non-trivial = in the '
        'executed run some session took a step between the first and the last step of another one; distinct = (layout, n, schedule)')
ASSUMPTIONS = ['androguard reaches the database through SQLAlchemy (dataset does): the schedule is owned at the granularity of SQL '
               'statements that mention table "session" (statement text or bound parameter); BEGIN/COMMIT and statements on other '
               'tables run together with the preceding step; SQLite-internal locking inside one statement is not explored',
               'gates are installed harness-side in the child processes only (event listener on sqlalchemy.engine.Engine), /repo is untouched',
               'session processes are forked from the harness process (androguard already imported, no database file open at fork '
               'time, all inherited descriptors closed) and reused for the schedules of one shard; every schedule gets a new database '
               'file and every Session its own engine/connection',
               'legacy database layout = what dataset emitted for the pinned code: WAL journal, table session(id INTEGER NOT NULL, '
               'PRIMARY KEY (id)) only, rows 0 and 1 (identifiers the versions before the session-id fix handed out)',
               'an implementation that issues no such statement through SQLAlchemy is still run concurrently and checked, but its '
               'interleavings are then not controlled (see traces_validated_against_impl)']

T_START = 900.0     # child start-up (python + import androguard.session)
T_FIRST = 60.0      # all children reach their first gate (nothing is held at a gate yet, so waiting long is safe)
T_STEP = 2.0        # a released step normally completes in milliseconds; beyond this: lock contention, free run
T_TOTAL = 120.0     # whole schedule
CAP_ALL = 400       # n = 2: enumerate every interleaving when there are at most this many
CAP_FAMILY = {'quick': 320, 'thorough': 4000}   # a systematic family with more members (many steps per session) is sampled (seeded), not enumerated
LAYOUTS = ('current', 'legacy')
LEGACY_DDL = 'CREATE TABLE session (\n\tid INTEGER NOT NULL, \n\tPRIMARY KEY (id)\n)'
LEGACY_ROWS = (0, 1)

RAND = {('quick', 2): 110, ('quick', 3): 70, ('thorough', 2): 2000, ('thorough', 3): 1200, ('thorough', 4): 600}


def EXHAUSTIVE(tier):
    return False        # the space of all interleavings is only covered completely when it is small (see exhaustive_component)


def EXTRA_COVERAGE(m):
    ex = m['extra']
    sampled = lambda k: k.startswith('family:rand') or '-sample:' in k
    fams = sorted(k[len('family:'):] + '=%d' % v for k, v in ex.items() if k.startswith('family:') and not sampled(k))
    rnd = sorted(k[len('family:'):] + '=%d' % v for k, v in ex.items() if k.startswith('family:') and sampled(k))
    return {'schedules_replayed': ex.get('schedules', 0),
            'traces_validated_against_impl': ex.get('ran_as_scheduled', 0),
            'exhaustive_component': 'complete families, every member replayed (family:layout:n:observed steps per session = schedules): '
                                    + ('; '.join(fams) or 'none') + '. Sampled (Hypothesis-drawn / seeded sample of a family that is too large): ' + ('; '.join(rnd) or 'none')}


# -- schedules -----------------------------------------------------------------------------------
# A schedule is a tuple of segments (child, count); count 0 = until that child has finished. A finite segment whose
# child finishes early is cut short. After the last segment the remaining steps are taken in lock-step round-robin.

def norm(segs, cap=None):
    """Merge adjacent segments of one child, drop empty ones, optionally cap the finite steps of each child."""
    out = []
    used = {}
    closed = set()
    for i, k in segs:
        i, k = int(i), int(k)
        if i in closed or k < 0:
            continue
        if k == 0:
            closed.add(i)
        elif cap is not None:
            k = min(k, cap - used.get(i, 0))
            if k <= 0:
                continue
            used[i] = used.get(i, 0) + k
        if out and out[-1][0] == i and out[-1][1] != 0:
            out[-1] = (i, 0 if k == 0 else out[-1][1] + k)
        else:
            out.append((i, k))
    return tuple(out)


def sched_str(s):
    return ' '.join('%dx%s' % (i, k or '*') for i, k in s) or 'lock-step'


def fam_all(s0, s1):
    out = []
    for pos in itertools.combinations(range(s0 + s1), s0):
        pos = set(pos)
        out.append(norm([(0 if t in pos else 1, 1) for t in range(s0 + s1)]))
    return out


def fam_lockstep(n, smax):
    """Round-robin (every order of the children), and round-robin after a head start of d steps for one child."""
    out = []
    for perm in itertools.permutations(range(n)):
        out.append(norm([(i, 1) for _ in range(smax) for i in perm]))
    for x in range(n):
        for d in range(1, smax):
            out.append(norm([(x, d)]))
    return _dedupe(out)


def fam_preempt1(n, smax):
    """X runs k steps, is pre-empted, the others run to completion one after the other, X finishes."""
    out = []
    for perm in itertools.permutations(range(n)):
        x, rest = perm[0], perm[1:]
        for k in range(0, smax + 1):
            out.append(norm([(x, k)] + [(y, 0) for y in rest] + [(x, 0)]))
    return _dedupe(out)


def fam_preempt2(smax):
    """n = 2: X runs k, Y runs j, X runs to completion, Y finishes."""
    out = []
    for x in (0, 1):
        y = 1 - x
        for k in range(1, smax):
            for j in range(1, smax):
                out.append(norm([(x, k), (y, j), (x, 0), (y, 0)]))
    return _dedupe(out)


def fam_preempt3(smax):
    """n = 2: X runs k, Y runs j, X runs m more, Y runs to completion, X finishes."""
    out = []
    for x in (0, 1):
        y = 1 - x
        for k in range(1, smax):
            for j in range(1, smax):
                for m in range(1, smax - k):
                    out.append(norm([(x, k), (y, j), (x, m), (y, 0), (x, 0)]))
    return _dedupe(out)


def fam_nested(n, smax):
    """n >= 3: X runs k, Y runs j, the others run to completion, Y finishes, X finishes."""
    out = []
    for perm in itertools.permutations(range(n)):
        x, y, rest = perm[0], perm[1], perm[2:]
        for k in range(1, smax):
            for j in range(1, smax):
                out.append(norm([(x, k), (y, j)] + [(z, 0) for z in rest] + [(y, 0), (x, 0)]))
    return _dedupe(out)


def _dedupe(l):
    seen = set()
    out = []
    for s in l:
        if s not in seen:
            seen.add(s)
            out.append(s)
    return out


def family(name, n, steps, seed):
    """The schedules of a systematic family, given the step counts observed in the serial probe run."""
    smax = max(max(steps), 1)
    if name == 'all':           # n == 2 and small
        return fam_all(steps[0], steps[1])
    if name == 'lockstep':
        return fam_lockstep(n, smax)
    if name == 'preempt1':
        return fam_preempt1(n, smax)
    if name == 'preempt2':
        return fam_preempt2(smax)
    if name == 'preempt3':
        return fam_preempt3(smax)
    if name == 'nested-sample':
        import random
        pool = fam_nested(n, smax)
        return random.Random(seed * 7919 + 36 + n).sample(pool, min(len(pool), 600))
    raise ValueError(name)


def rand_strategy(n, smax):
    from hypothesis import strategies as st
    unit = st.lists(st.integers(0, n - 1), max_size=n * smax).map(lambda l: [(i, 1) for i in l])
    seg = st.lists(st.tuples(st.integers(0, n - 1), st.integers(1, max(smax, 1))), max_size=3 * n + 3)
    tail = st.one_of(st.just([]), st.permutations(list(range(n))).map(lambda p: [(i, 0) for i in p]))
    return st.tuples(st.one_of(unit, seg), tail).map(lambda t: norm(list(t[0]) + list(t[1]), cap=smax))


# -- child ---------------------------------------------------------------------------------------

_SESSION_WORD = re.compile(r'\bsession\b', re.IGNORECASE)


def _mentions_session(statement, parameters):
    if isinstance(statement, str) and _SESSION_WORD.search(statement):
        return True

    def walk(p, depth=0):
        if isinstance(p, str):
            return p.lower() == 'session'
        if depth < 3 and isinstance(p, dict):
            return any(walk(v, depth + 1) for v in p.values())
        if depth < 3 and isinstance(p, (list, tuple)):
            return any(walk(v, depth + 1) for v in p)
        return False
    return walk(parameters)


def _token(statement):
    """Short class of a statement for the trace: first keyword (+ pragma name / object kind)."""
    w = re.findall(r'[A-Za-z_]+', statement or '')[:4]
    if not w:
        return '?'
    head = w[0].upper()
    if head == 'PRAGMA':
        names = [x for x in w[1:] if x.lower() not in ('main', 'temp')]
        return 'PRAGMA ' + (names[0].lower() if names else '')
    if head == 'SELECT' and 'sqlite_master' in statement:
        return 'SELECT sqlite_master'
    if head in ('ALTER', 'CREATE', 'DROP') and len(w) > 1:
        return head + ' ' + w[1].upper()
    return head


def child_main(cmd_fd, ev_fd):
    """Body of a session process (runs in the forked child only, never returns)."""
    proto_in = os.fdopen(cmd_fd, 'r')
    proto_out = os.fdopen(ev_fd, 'w')

    def send(obj):
        proto_out.write(json.dumps(obj) + '\n')
        proto_out.flush()

    def wait_go():
        line = proto_in.readline()
        if not line:
            os._exit(3)          # parent went away

    try:
        from loguru import logger
        logger.remove()
    except Exception:
        pass
    from sqlalchemy import event
    from sqlalchemy.engine import Engine
    engines = {}
    gating = [False]

    def gate(conn, cursor, statement, parameters, context, executemany):
        try:
            engines[id(conn.engine)] = conn.engine
        except Exception:
            pass
        if gating[0] and _mentions_session(statement, parameters):
            send({'ev': 'gate', 'sql': _token(statement)})
            wait_go()

    event.listen(Engine, 'before_cursor_execute', gate)
    from androguard.session import Session
    import androguard
    send({'ev': 'ready', 'androguard': os.path.dirname(os.path.abspath(androguard.__file__))})
    while True:
        line = proto_in.readline()
        if not line or line.startswith('Q'):
            break
        assert line.startswith('S '), line
        url = line[2:].rstrip('\n')
        s = None
        gating[0] = True
        try:
            s = Session(db_url=url)
            sid = s.session_id
            gating[0] = False
            send({'ev': 'done', 'id': sid if isinstance(sid, int) and not isinstance(sid, bool) else None, 'repr': repr(sid)})
        except Exception as e:
            gating[0] = False
            send({'ev': 'exc', 'type': type(e).__name__, 'msg': str(e)[:300], 'text': traceback.format_exc()[-1500:]})
        # harness-side clean-up so that a reused child holds no connection to the finished schedule's file
        try:
            if s is not None:
                s.db.close()
        except Exception:
            pass
        failed = s is None
        del s
        if failed:
            gc.collect()        # the half-built Session still owns a connection: drop it before disposing the engine
        for e in list(engines.values()):
            try:
                e.dispose()
            except Exception:
                pass
        engines.clear()
    os._exit(0)


# -- parent-side controller ----------------------------------------------------------------------

def _open_database_files():
    """Database files this process has open (there must be none when a session process is forked: an SQLite
    connection must not be carried across fork)."""
    out = []
    try:
        fds = os.listdir('/proc/self/fd')
    except OSError:
        return out
    for fd in fds:
        try:
            target = os.readlink('/proc/self/fd/' + fd)
        except OSError:
            continue
        if target.endswith(('.db', '.db-wal', '.db-shm', '.db-journal')):
            out.append(target)
    return out


class _Child:
    """One session process: forked from the harness process (androguard is imported already, so start-up costs
    milliseconds instead of seconds), talking to it over two pipes. Everything else it inherited is closed."""

    def __init__(self):
        from vf.core.runner import HarnessError
        import androguard.session       # imported before the fork: the child inherits it  # noqa: F401
        left = _open_database_files()
        if left:
            raise HarnessError('database files open in the harness process at fork time: %r' % (left,))
        cmd_r, cmd_w = os.pipe()
        ev_r, ev_w = os.pipe()
        sys.stdout.flush()
        sys.stderr.flush()
        pid = os.fork()
        if pid == 0:
            code = 70
            try:
                null = os.open(os.devnull, os.O_RDWR)
                for fd in (0, 1, 2):
                    os.dup2(null, fd)
                keep = {0, 1, 2, cmd_r, ev_w}
                for name in os.listdir('/proc/self/fd'):
                    fd = int(name)
                    if fd not in keep:
                        try:
                            os.close(fd)
                        except OSError:
                            pass
                child_main(cmd_r, ev_w)
                code = 0
            finally:
                os._exit(code)
        os.close(cmd_r)
        os.close(ev_w)
        self.pid = pid
        self.wfd = cmd_w
        self.rfd = ev_r
        self.buf = b''
        self.state = 'starting'    # starting | idle | running | gate | done | exc | dead
        self.sql = None            # statement class the child waits at (state == 'gate')
        self.result = None
        self.trace = []            # statement classes of the gates passed in the current schedule
        self.where = None
        self.reaped = False

    def fileno(self):
        return self.rfd

    def _write(self, line):
        try:
            os.write(self.wfd, line)
        except (BrokenPipeError, OSError):
            self.state = 'dead'
            return
        self.state = 'running'

    def start_session(self, url):
        assert '\n' not in url
        self.result = None
        self.trace = []
        self._write(('S %s\n' % url).encode())

    def go(self):
        self.trace.append(self.sql)
        self._write(b'go\n')

    def feed(self):
        data = os.read(self.rfd, 65536)
        if not data:
            self.state = 'dead'
            return
        self.buf += data
        while b'\n' in self.buf:
            line, self.buf = self.buf.split(b'\n', 1)
            ev = json.loads(line)
            if ev['ev'] == 'ready':
                self.state = 'idle'
                self.where = ev['androguard']
            elif ev['ev'] == 'gate':
                self.state = 'gate'
                self.sql = ev.get('sql', '?')
            elif ev['ev'] in ('done', 'exc'):
                self.state = ev['ev']
                self.result = ev

    def _reap(self, timeout):
        deadline = time.monotonic() + timeout
        while not self.reaped:
            try:
                pid, _ = os.waitpid(self.pid, os.WNOHANG)
            except ChildProcessError:
                pid = self.pid
            if pid == self.pid:
                self.reaped = True
            elif time.monotonic() >= deadline:
                return False
            else:
                time.sleep(0.005)
        return True

    def close(self):
        if self.reaped:
            return
        if self.state in ('idle', 'done', 'exc'):
            try:
                os.write(self.wfd, b'Q\n')
            except OSError:
                pass
        for fd in (self.wfd, self.rfd):      # closing the command pipe ends a child that still waits for a command
            try:
                os.close(fd)
            except OSError:
                pass
        if not self._reap(3.0):
            try:
                os.kill(self.pid, 9)
            except OSError:
                pass
            self._reap(30.0)


def _pump(children, until, timeout):
    """Read child events until `until()` is true or the timeout expires. Returns until()."""
    from vf.core.runner import HarnessError
    deadline = time.monotonic() + timeout
    while not until():
        left = deadline - time.monotonic()
        if left <= 0:
            break
        r, _, _ = select.select(children, [], [], min(left, 0.5))
        for c in r:
            c.feed()
        if any(c.state == 'dead' for c in children):
            raise HarnessError('C36 child process died without reporting a result')
    return until()


def spawn(n):
    from vf.core.runner import HarnessError
    children = [_Child() for _ in range(n)]
    try:
        if not _pump(children, lambda: all(c.state == 'idle' for c in children), T_START):
            raise HarnessError('C36 children did not start within %.0f s' % T_START)
        repo = os.path.realpath(os.environ.get('VERIF_REPO', '/repo'))
        for c in children:
            if not os.path.realpath(c.where).startswith(repo + os.sep):
                raise HarnessError('child imported androguard from %s, not from %s' % (c.where, repo))
    except BaseException:
        for c in children:
            c.close()
        raise
    return children


def _workdir():
    """Scratch directory for the database files: memory-backed when the machine has one (a commit then costs no disk
    flush; file locking and the WAL shared-memory file work the same there), the default temporary directory otherwise."""
    shm = '/dev/shm'
    if os.path.isdir(shm) and os.access(shm, os.W_OK | os.X_OK):
        return tempfile.mkdtemp(prefix='vf-c36-', dir=shm)
    return tempfile.mkdtemp(prefix='vf-c36-')


def _session_rows(path):
    con = sqlite3.connect(path, timeout=30)
    try:
        return [r[0] for r in con.execute('SELECT id FROM session')]
    finally:
        con.close()


def make_database(path, layout):
    """Create the well-formed database the concurrent sessions will open. Returns the ids of its session rows."""
    from vf.core.runner import HarnessError
    if layout == 'current':
        # the database file and its tables are created beforehand by one sequential session of the code under test
        from androguard.session import Session
        s0 = Session(db_url='sqlite:///' + path)
        s0.db.close()
        del s0
    elif layout == 'legacy':
        # what the earlier versions wrote (statements dataset emitted for them), with the stdlib module only
        con = sqlite3.connect(path)
        try:
            mode = con.execute('PRAGMA journal_mode=WAL').fetchone()[0]
            if mode != 'wal':
                raise HarnessError('cannot create a WAL-mode database at %s (journal mode %r)' % (path, mode))
            con.execute(LEGACY_DDL)
            for i in LEGACY_ROWS:
                con.execute('INSERT INTO session (id) VALUES (?)', (i,))
            con.commit()
        finally:
            con.close()
    else:
        raise HarnessError('unknown database layout %r' % (layout,))
    return _session_rows(path)


def run_schedule(workdir, layout, n, sched, children):
    """Replay one schedule on idle children.
    Returns dict(results, rows, pre, followed, contention, traces, order)."""
    from vf.core.runner import HarnessError
    assert len(children) == n and all(c.state in ('idle', 'done', 'exc') for c in children)
    d = tempfile.mkdtemp(prefix='db', dir=workdir)
    path = os.path.join(d, 's.db')
    url = 'sqlite:///' + path
    try:
        pre = make_database(path, layout)
        t_begin = time.monotonic()
        for c in children:
            c.start_session(url)         # enter Session.__init__; each runs up to its first gate
        order = []                       # child index of every step, in the order the steps were released
        state = {'followed': True, 'contention': False}
        if not _pump(children, lambda: all(c.state != 'running' for c in children), T_FIRST):
            state['contention'] = True

        def step(i):
            """Release one step of child i and wait for it to complete. False: child has no step left / contention."""
            c = children[i]
            _pump(children, lambda: c.state != 'running', T_STEP)
            if c.state == 'running':     # blocked inside a database call before reaching a gate
                state['contention'] = True
                return False
            if c.state != 'gate':        # finished
                return False
            order.append(i)
            c.go()
            _pump(children, lambda: c.state != 'running', T_STEP)
            if c.state == 'running':     # the released statement waits for a lock
                state['contention'] = True
                return False
            return True

        for (i, k) in sched:
            if state['contention']:
                break
            if not 0 <= i < n:
                raise HarnessError('schedule %s names child %d of %d' % (sched_str(sched), i, n))
            taken = 0
            while k == 0 or taken < k:
                if not step(i):
                    if k != 0 and not state['contention']:
                        state['followed'] = False       # the implementation has no such step (finished earlier)
                    break
                taken += 1
        # drain: what is left is single-stepped in lock-step round-robin order - every waiting process moves one
        # step before any moves a second one - which is deterministic. After lock contention: free run.
        finished = lambda: all(c.state in ('done', 'exc') for c in children)
        while not finished():
            left = T_TOTAL - (time.monotonic() - t_begin)
            if left <= 0:
                raise HarnessError('C36 schedule %s did not finish within %.0f s (states %r)' % (
                    sched_str(sched), T_TOTAL, [c.state for c in children]))
            if state['contention']:
                for i, c in enumerate(children):
                    if c.state == 'gate':
                        order.append(i)
                        c.go()
                _pump(children, lambda: finished() or any(c.state == 'gate' for c in children), min(left, 1.0))
            else:
                for i in range(n):
                    if children[i].state not in ('done', 'exc'):
                        step(i)
                        if state['contention']:
                            break
        results = [c.result for c in children]
        traces = [list(c.trace) for c in children]
        rows = _session_rows(path)
        controlled = not state['contention'] and all(traces)
        return dict(results=results, rows=rows, pre=pre, followed=state['followed'] and controlled,
                    contention=state['contention'], traces=traces, order=order)
    finally:
        shutil.rmtree(d, ignore_errors=True)


def _interleaved(order, n):
    first, last = {}, {}
    for t, i in enumerate(order):
        first.setdefault(i, t)
        last[i] = t
    return any(first[i] < t < last[i] and j != i for t, j in enumerate(order) for i in first)


def _compress(trace):
    out = []
    for t in trace:
        if out and out[-1][0] == t:
            out[-1][1] += 1
        else:
            out.append([t, 1])
    return ' '.join(t if k == 1 else '%s*%d' % (t, k) for t, k in out)


def evaluate(ctx, workdir, layout, n, sched, children=None, mode='fresh', fam='replay'):
    sched = norm(sched)
    own = children is None
    if own:
        children = spawn(n)
        ctx.count('processes_started', n)
    try:
        out = run_schedule(workdir, layout, n, sched, children)
    finally:
        if own:
            for c in children:
                c.close()
    res = out['results']
    ids = [r.get('id') if r['ev'] == 'done' else None for r in res]
    inter = _interleaved(out['order'], n)
    ctx.case(nontrivial=inter, key=(layout, n, sched_str(sched)),
             labels=['n%d' % n, 'layout:' + layout, 'n%d:%s' % (n, 'interleaved' if inter else 'serial'), 'processes:' + mode,
                     'family:' + fam, 'replayed-as-scheduled' if out['followed'] else 'not-as-scheduled',
                     'steps-per-session:%s' % ','.join(str(len(t)) for t in out['traces'])],
             sample={'n': n, 'layout': layout, 'schedule': sched_str(sched), 'order': ''.join(map(str, out['order'])),
                     'ids': ids, 'rows': sorted(out['rows'], key=repr)})
    ctx.count('schedules')
    ctx.count('steps_released', len(out['order']))
    if out['followed']:
        ctx.count('ran_as_scheduled')
    if out['contention']:
        ctx.count('lock_contention_free_run')
    observed = {'results': [dict(ev=r['ev'], id=r.get('id'), repr=r.get('repr'), type=r.get('type')) for r in res],
                'rows': out['rows'], 'rows_before': out['pre'], 'order': ''.join(map(str, out['order'])),
                'statements': [_compress(t) for t in out['traces']],
                'followed': out['followed'], 'contention': out['contention']}
    case = {'n': n, 'layout': layout, 'schedule': [[i, k] for i, k in sched], 'schedule_str': sched_str(sched), 'observed': observed}
    where = 'database %s, schedule %s (steps released in order %s)' % (layout, sched_str(sched), observed['order'])
    for i, r in enumerate(res):
        if r['ev'] == 'exc':
            if out['contention'] and 'database is locked' in r.get('text', ''):
                ctx.count('inconclusive_locked_under_harness_hold')
                continue
            ctx.fail('returns:exception:%s:n%d:%s' % (r['type'], n, layout), case,
                     '%s: Session() of process %d raised %s: %s\n%s' % (where, i, r['type'], r.get('msg', ''), r.get('text', '')))
        elif r.get('id') is None:
            ctx.fail('id:not-an-int:n%d:%s' % (n, layout), case, '%s: session_id of process %d is %s' % (where, i, r.get('repr')))
    got = [x for x in ids if x is not None]
    allids = got + list(out['pre'])
    ctx.check(len(set(allids)) == len(allids), 'distinct:session_id:n%d:%s' % (n, layout), case,
              '%s: session ids %r are not pairwise distinct and distinct from the rows %r that were in the database before' % (
                  where, ids, out['pre']))
    rows = out['rows']
    ctx.check(set(got) <= set(rows), 'rows:n%d:%s' % (n, layout), case,
              '%s: table session holds ids %r, sessions have %r' % (where, rows, got))
    if len(rows) != len(allids):
        ctx.count('runs_with_row_count_other_than_sessions')
    return out


# -- check interface -----------------------------------------------------------------------------

def shards(tier, seed):
    """(layout, n, family, j, k): processes are started once per shard; each schedule runs its n sessions in n different
    processes on a new database file. family 'sys' = the systematic families [j::k], 'rand' = Hypothesis-drawn schedules,
    'fresh' = a few schedules with a new set of processes for every schedule."""
    sh = []
    for lay in LAYOUTS:
        if tier == 'quick':
            sh += [(lay, 2, 'sys', j, 4) for j in range(4)]
            sh += [(lay, 2, 'rand', 0, 1)]
            sh += [(lay, 3, 'sys', j, 2) for j in range(2)]
            sh += [(lay, 3, 'rand', 0, 1)]
            sh += [(lay, 2, 'fresh', 0, 1)]
        else:
            sh += [(lay, 2, 'sys', j, 12) for j in range(12)]
            sh += [(lay, 2, 'rand', j, 4) for j in range(4)]
            sh += [(lay, 3, 'sys', j, 6) for j in range(6)]
            sh += [(lay, 3, 'rand', j, 4) for j in range(4)]
            sh += [(lay, 4, 'rand', j, 2) for j in range(2)]
            sh += [(lay, 2, 'fresh', 0, 1), (lay, 3, 'fresh', 0, 1)]
    return sh


def _systematic(tier, n, steps, seed):
    """[(family name, schedules)] for the observed step counts."""
    if n == 2:
        if comb(steps[0] + steps[1], steps[0]) <= CAP_ALL:
            return [('all', family('all', n, steps, seed))]
        names = ['lockstep', 'preempt1', 'preempt2'] + (['preempt3'] if tier != 'quick' else [])
    else:
        names = ['lockstep', 'preempt1'] + (['nested-sample'] if tier != 'quick' else [])
    seen = set()
    out = []
    for name in names:
        l = [s for s in family(name, n, steps, seed) if s not in seen]
        seen.update(l)
        if len(l) > CAP_FAMILY[tier]:
            import random
            l = random.Random(seed * 7919 + 36 + len(out)).sample(l, CAP_FAMILY[tier])
            name += '-sample'
        out.append((name, l))
    return out


def run_shard(ctx, shard):
    from vf.core.runner import hyp_collect
    lay, n, fam, j, k = shard
    work = _workdir()
    children = None
    try:
        if fam == 'fresh':
            for sched in [(), norm([(0, 0)] + [(i, 0) for i in range(1, n)])]:
                evaluate(ctx, work, lay, n, sched, None, 'fresh', 'fresh')
            return
        children = spawn(n)
        ctx.count('processes_started', n)
        # probe: one serial run tells how many steps a session of this implementation has on this database
        serial = norm([(i, 0) for i in range(n)])
        out = evaluate(ctx, work, lay, n, serial, children, 'reuse', 'probe')
        steps = [len(t) for t in out['traces']]
        tag = '%s:n%d:steps%s' % (lay, n, ','.join(map(str, steps)))
        if fam == 'sys':
            for name, pool in _systematic(ctx.tier, n, steps, ctx.seed):
                for sched in pool[j::k]:
                    evaluate(ctx, work, lay, n, sched, children, 'reuse', name)
                    ctx.count('family:%s:%s' % (name, tag))
        else:
            smax = max(max(steps), 1)

            def one(c, sched):
                evaluate(c, work, lay, n, sched, children, 'reuse', 'rand')
                c.count('family:rand:%s' % tag)
            hyp_collect(ctx, rand_strategy(n, smax), one, max(1, RAND[(ctx.tier, n)] // k), salt=36 + n)
    finally:
        for c in children or ():
            c.close()
        shutil.rmtree(work, ignore_errors=True)


def replay(ctx, case):
    work = _workdir()
    try:
        evaluate(ctx, work, str(case.get('layout', 'current')), int(case['n']), [(int(i), int(k)) for i, k in case['schedule']])
    finally:
        shutil.rmtree(work, ignore_errors=True)


MATCHERS = {}
