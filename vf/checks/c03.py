"""C03 — LEB128 integers decode to the value their bytes encode.

Oracle: vf.gen.leb (own codec from the DEX spec). Domain: every 1- and 2-byte string exhaustively,
Hypothesis-generated 3..5-byte strings (canonical and zero/sign padded), boundary and random 32-bit
values for the write->read round trip (uleb, sleb, uleb128p1). A 5th byte whose payload does not
fit in 32 bits has no specified value: only consumed length is asserted there.
"""
import io
from hypothesis import strategies as st
from vf.core.runner import hyp_collect
from vf.gen import leb

PROPERTY = 'C03'
LEVEL = 'exploration'
RULE = ('byte strings: all 1- and 2-byte LEB128 encodings exhaustively (each with trailing bytes), Hypothesis-drawn '
        '3..5-byte canonical/padded encodings; values: boundaries 2^(7k)+-1, INT_MIN/MAX, UINT_MAX and random 32-bit '
        'values through write->read for uleb/sleb/uleb128p1. non-trivial = multi-byte encoding or negative value; '
        'distinct = (kind, bytes or value)')
ASSUMPTIONS = ['reference codec vf/gen/leb.py typed from the DEX format specification',
               '5-byte encodings whose 5th byte overflows 32 bits: only consumed length (and, for sleb128, that the result is an int32) is checked']
EXHAUSTIVE = False


def _cm():
    from androguard.core import dex

    class CM:
        packer = dex.DalvikPacker(0x12345678)
    return CM()


def _read(fn, cm, data):
    b = io.BytesIO(data)
    v = fn(cm, b)
    return v, b.tell()


def check_bytes(ctx, kind, data):
    """data: an encoding followed by trailing bytes"""
    from androguard.core import dex
    cm = _cm()
    if kind == 'u':
        exp, n = leb.decode_uleb(data)
        got, pos = _read(dex.readuleb128, cm, data)
        in_domain = not (n == 5 and data[4] > 0x0f)
    elif kind == 'p1':
        exp, n = leb.decode_uleb(data)
        exp -= 1
        got, pos = _read(dex.readuleb128p1, cm, data)
        in_domain = not (n == 5 and data[4] > 0x0f)
    else:
        exp, n = leb.decode_sleb(data)
        got, pos = _read(dex.readsleb128, cm, data)
        in_domain = not (n == 5 and not (data[4] <= 0x07 or 0x78 <= data[4] <= 0x7f))
    ctx.case(nontrivial=(n > 1 or exp < 0), key=(kind, data[:n]), labels=('bytes:%s:len%d' % (kind, n),
             'in-domain' if in_domain else 'overflow-5th-byte'),
             sample={'kind': kind, 'bytes': data.hex(), 'expected': exp, 'consumed': n})
    case = {'mode': 'bytes', 'kind': kind, 'data': data}
    ctx.check(pos == n, 'consumed:%s:len%d' % (kind, n), case, 'consumed %d bytes, encoding has %d' % (pos, n))
    if kind == 's':
        # whatever the 5th byte holds, a signed LEB128 read yields "the 32-bit integer": never a value outside int32
        ctx.check(-(1 << 31) <= got < (1 << 31), 'range:s:len%d' % n, case, 'decoded %r is not a 32-bit signed integer' % got)
    if in_domain:
        ctx.check(got == exp, 'value:%s:len%d' % (kind, n), case, 'decoded %r, expected %r' % (got, exp))


def check_value(ctx, kind, v):
    from androguard.core import dex
    cm = _cm()
    case = {'mode': 'value', 'kind': kind, 'value': v}
    if kind == 'u':
        enc = bytes(dex.writeuleb128(cm, v))
        got, pos = _read(dex.readuleb128, cm, enc + b'\xff\x01')
    elif kind == 'p1':
        enc = bytes(dex.writeuleb128(cm, v + 1))
        got, pos = _read(dex.readuleb128p1, cm, enc + b'\xff\x01')
    else:
        enc = bytes(dex.writesleb128(cm, v))
        got, pos = _read(dex.readsleb128, cm, enc + b'\xff\x01')
    ctx.case(nontrivial=(len(enc) > 1 or v < 0), key=(kind, 'v', v), labels='value:%s:len%d' % (kind, len(enc)),
             sample={'kind': kind, 'value': v, 'encoded': enc.hex()})
    ctx.check(got == v and pos == len(enc), 'roundtrip:%s:len%d' % (kind, len(enc)), case,
              'write(%d)=%s read back %r consuming %d' % (v, enc.hex(), got, pos))
    # the encoder's output must itself be a correct encoding (decoded by the reference)
    ref = leb.decode_sleb(enc) if kind == 's' else leb.decode_uleb(enc)
    refv = ref[0] - 1 if kind == 'p1' else ref[0]
    ctx.check(refv == v and ref[1] == len(enc) and len(enc) <= 5, 'encode:%s' % kind, case,
              'write(%d)=%s, reference decodes it as %r' % (v, enc.hex(), refv))


def check_stream(ctx, kind, values):
    """history: several values are encoded one after the other into ONE stream the way androguard's own serialisers
    do it (`buff = write(a); buff += write(b); ...`, i.e. the returned buffer is extended in place), then read back in
    order; the same list is encoded a second time afterwards -- an encoder must not be disturbed by what callers did
    with the buffers it returned earlier."""
    import io
    from androguard.core import dex
    cm = _cm()
    w = {'u': dex.writeuleb128, 's': dex.writesleb128, 'p1': lambda c, v: dex.writeuleb128(c, v + 1)}[kind]
    r = {'u': dex.readuleb128, 's': dex.readsleb128, 'p1': dex.readuleb128p1}[kind]
    case = {'mode': 'stream', 'kind': kind, 'values': list(values)}
    ctx.case(nontrivial=len(values) >= 2, key=(kind, 'stream', tuple(values)), labels='stream:%s:n%d' % (kind, min(len(values), 6)),
             sample={'kind': kind, 'stream_of': list(values)[:6]})
    for rnd in (1, 2):
        try:
            buff = w(cm, values[0])
            n = 1
            for v in values[1:]:
                if len(buff) > 5 * n:
                    break                      # already wrong (no value needs more than 5 bytes): reported below
                buff += w(cm, v)
                n += 1
            if len(buff) > 5 * len(values):
                ctx.fail('stream:%s:round%d' % (kind, rnd), case,
                         'round %d: encoding %r one after the other produced %d bytes (at most 5 per value): %s...'
                         % (rnd, list(values), len(buff), bytes(buff[:24]).hex()))
                return
            b = io.BytesIO(bytes(buff))
            got = [r(cm, b) for _ in values]
            rest = b.read()
        except Exception as e:
            ctx.fail('stream:exception:%s' % kind, case, 'round %d: %r' % (rnd, e))
            return
        if got != list(values) or rest:
            ctx.fail('stream:%s:round%d' % (kind, rnd), case,
                     'round %d: wrote %r as one stream %s, read back %r (+%d bytes left)' % (rnd, list(values), bytes(buff).hex(), got, len(rest)))
            return


def boundaries():
    u, s = set(), set()
    for k in range(0, 33):
        for d in (-1, 0, 1):
            x = (1 << k) + d
            if 0 <= x < 1 << 32:
                u.add(x)
            for y in (x, -x):
                if -(1 << 31) <= y < 1 << 31:
                    s.add(y)
    u |= {0, 0x7f, 0x80, 0x3fff, 0x4000, 0x1fffff, 0x200000, 0xfffffff, 0x10000000, 0xffffffff, 0x7fffffff, 0x80000000}
    s |= {0, -1, 63, 64, -64, -65, 8191, 8192, -8192, -8193, 0x7fffffff, -0x80000000}
    return sorted(u), sorted(s)


def shards(tier, seed):
    sh = [('exh1',), ('bound',)]
    sh += [('exh2', k) for k in range(4)]
    n = 6 if tier == 'quick' else 12
    sh += [('hyp', k) for k in range(n)]
    return sh


def run_shard(ctx, shard):
    kind = shard[0]
    if kind == 'exh1':
        for b0 in range(0x80):
            for k in ('u', 's', 'p1'):
                for tail in (b'', b'\x00', b'\xff\xff'):
                    check_bytes(ctx, k, bytes([b0]) + tail)
    elif kind == 'exh2':
        for b0 in range(0x80 + shard[1] * 32, 0x80 + shard[1] * 32 + 32):
            for b1 in range(0x80):
                for k in ('u', 's', 'p1'):
                    check_bytes(ctx, k, bytes([b0, b1, 0x80]))
    elif kind == 'bound':
        u, s = boundaries()
        for v in u:
            check_value(ctx, 'u', v)
            if v <= 0xfffffffe:
                check_value(ctx, 'p1', v)
            for n in range(len(leb.uleb(v)), 6):
                check_bytes(ctx, 'u', leb.pad_uleb(v, n) + b'\x81')
                check_bytes(ctx, 'p1', leb.pad_uleb(v, n) + b'\x81')
        check_value(ctx, 'p1', -1)
        for v in s:
            check_value(ctx, 's', v)
            for n in range(len(leb.sleb(v)), 6):
                check_bytes(ctx, 's', leb.pad_sleb(v, n) + b'\x81')
    else:
        n = 3000 if ctx.tier == 'quick' else 40000
        cont = st.integers(0x80, 0xff)
        last = st.integers(0x00, 0x7f)
        raw = st.integers(3, 5).flatmap(lambda k: st.tuples(*([cont] * (k - 1) + [last]))).map(bytes)
        padded_u = st.tuples(st.integers(0, 0xffffffff), st.integers(1, 5)).map(
            lambda t: leb.pad_uleb(t[0], max(t[1], len(leb.uleb(t[0])))))
        padded_s = st.tuples(st.integers(-1 << 31, (1 << 31) - 1), st.integers(1, 5)).map(
            lambda t: leb.pad_sleb(t[0], max(t[1], len(leb.sleb(t[0])))))
        tail = st.binary(max_size=3)
        bytes_case = st.tuples(st.just('bytes'), st.sampled_from(['u', 's', 'p1']), st.one_of(raw, padded_u, padded_s), tail)
        val_case = st.one_of(
            st.tuples(st.just('value'), st.just('u'), st.integers(0, 0xffffffff)),
            st.tuples(st.just('value'), st.just('p1'), st.integers(-1, 0xfffffffe)),
            st.tuples(st.just('value'), st.just('s'), st.integers(-1 << 31, (1 << 31) - 1)))

        def fn(c, v):
            if v[0] == 'bytes':
                check_bytes(c, v[1], v[2] + v[3])
            else:
                check_value(c, v[1], v[2])
        small = st.one_of(st.integers(0, 0x7f), st.sampled_from([0, 1, 2, 0x7f, 0x80, 300, 70000, 0xffffffff]), st.integers(0, 0xffffffff))
        ssmall = st.one_of(st.integers(-64, 63), st.sampled_from([0, -1, 63, 64, -64, -65, 1 << 20, -(1 << 31)]),
                           st.integers(-1 << 31, (1 << 31) - 1))
        stream_case = st.one_of(
            st.tuples(st.just('stream'), st.just('u'), st.lists(small, min_size=1, max_size=8)),
            st.tuples(st.just('stream'), st.just('p1'), st.lists(small.map(lambda v: min(v, 0xfffffffe) - (v & 1)), min_size=1, max_size=8)),
            st.tuples(st.just('stream'), st.just('s'), st.lists(ssmall, min_size=1, max_size=8)))

        def fn(c, v):
            if v[0] == 'bytes':
                check_bytes(c, v[1], v[2] + v[3])
            elif v[0] == 'stream':
                check_stream(c, v[1], v[2])
            else:
                check_value(c, v[1], v[2])
        hyp_collect(ctx, st.integers(0, 7).flatmap(lambda k: stream_case if k == 0 else bytes_case if k < 5 else val_case), fn, n, salt=shard[1])


def replay(ctx, case):
    if case['mode'] == 'bytes':
        check_bytes(ctx, case['kind'], case['data'])
    elif case['mode'] == 'stream':
        check_stream(ctx, case['kind'], case['values'])
    else:
        check_value(ctx, case['kind'], case['value'])
