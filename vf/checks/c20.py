"""C20 — def-use chains equal the reaching-definitions solution.

Generated programs: a real `androguard.decompiler.graph.Graph` of real `StatementBlock`/`ReturnBlock` nodes
holding stub instructions (`get_lhs`, `get_used_vars`) over 2..4 registers and 0..3 parameters, normal and
catch edges, every node reachable, optional exit node; numbered with `compute_rpo()` + `number_ins()` exactly as
`construct()` does, then `dataflow.build_def_use(graph, params)`.
Shipped programs: every method with code of the shipped DEX files, CFG built by `construct()` from
`DvMethod`'s start block / var map / exceptions as `DvMethod.process` does; the abstract program is read off the
real IR instructions through the same two accessors the analysis uses.

Oracle: vf.model.reachdef (explicit path search, forward from definitions, cross-checked with a backward search
from uses).  UD[var, use] as a set must equal the set of reaching definitions (parameters = locations -1, -2, ..),
DU must be exactly the inverse relation.
"""
import glob
import os
import traceback
from hypothesis import strategies as st
from vf.core.runner import hyp_collect, HarnessError
from vf.gen.digraphs import KIND
from vf.model import reachdef as rd
from vf.model import dominators as dm

PROPERTY = 'C20'
LEVEL = 'exploration'
RULE = ('generated: Hypothesis-drawn graphs (one quarter drawn choice by choice, three quarters expanded from a drawn seed) of 1..12 (thorough 40) real block nodes with 0..4 stub instructions '
        '(0..3 reads, optional write) over 2..4 registers, 0..3 distinct parameter registers, spanning edges + random '
        'extra edges (normal/catch/both, loops, self-loops), optional exit node; shipped: every method with code of '
        'tests/data/APK/*.dex (quick: all but a seed-chosen quarter of Annotation_classes.dex; thorough: all, plus the '
        'DEX files inside the shipped APKs) via construct(). non-trivial = the graph has a cycle and some use is reached '
        'by >=2 definitions; distinct = abstract program (blocks, edges, params)')
ASSUMPTIONS = ['reference vf/model/reachdef.py: an edge leaves from the end of a block (block-level paths, for catch edges '
               'too, as the design states); an instruction reads before it writes',
               'forward (per definition) and backward (per use) path searches are compared on every case; disagreement is a harness error',
               'the abstract program of a shipped method is read through get_lhs()/get_used_vars()/Graph.all_sucs of the '
               'graph construct() returned; parameters are DvMethod.lparams',
               'UD/DU lists are compared as sets (a register read twice by one instruction may be listed twice)']
EXHAUSTIVE = False
REPO = os.environ.get('VERIF_REPO', '/repo')


class Ins:
    """Stub IR instruction: exactly the interface BasicReachDef/build_def_use use."""

    def __init__(self, uses, lhs):
        self.uses = list(uses)
        self.lhs = lhs

    def get_used_vars(self):
        return list(self.uses)

    def get_lhs(self):
        return self.lhs

    def __repr__(self):
        return 'Ins(%r,%r)' % (self.uses, self.lhs)


# -- generated programs -------------------------------------------------------------------

KINDS = [0, 0, 0, 0, 0, 1, 1, 2]


def _decode_ins(v, nregs):
    """one integer -> ([reads], write): 2 bits count, 3 x 2 bits registers, 3 bits write (0..2: none)."""
    cnt = v & 3
    uses = [((v >> (2 + 2 * j)) & 3) % nregs for j in range(cnt)]
    w = (v >> 8) & 7
    return [uses, None if w < 3 else (w - 3) % nregs]


def _finish(draw_bool, pick, n, params, blocks, edges):
    sinks = [i for i in range(n) if not any(a == i and k in (0, 2) for a, b, k in edges)]
    exit_ = pick(sinks) if sinks and draw_bool() else None
    return {'mode': 'gen', 'params': list(params), 'blocks': blocks, 'edges': [list(e) for e in edges], 'exit': exit_}


@st.composite
def programs_fine(draw, max_nodes):
    """every choice is a Hypothesis draw (shrinks well); integers are packed to keep the draw count low"""
    nregs = draw(st.integers(2, 4))
    params = draw(st.lists(st.integers(0, nregs - 1), max_size=3, unique=True))
    n = draw(st.one_of(st.integers(1, min(5, max_nodes)), st.integers(1, max_nodes)))
    raw = draw(st.lists(st.lists(st.integers(0, 2047), max_size=4), min_size=n, max_size=n))
    blocks = [[_decode_ins(v, nregs) for v in b] for b in raw]
    span = draw(st.lists(st.integers(0, 8 * 64 - 1), min_size=n - 1, max_size=n - 1))
    edges = [((v >> 3) % i, i, KINDS[v & 7]) for i, v in enumerate(span, 1)]
    extra = draw(st.lists(st.integers(0, 8 * n * n - 1), max_size=2 * n))
    edges += [((v >> 3) // n, (v >> 3) % n, KINDS[v & 7]) for v in extra]
    if draw(st.booleans()):
        edges.reverse()
    return _finish(lambda: draw(st.booleans()), lambda l: draw(st.sampled_from(l)), n, params, blocks, edges)


def program_from_seed(t):
    """(n, nregs, seed) -> program; a deterministic function of the drawn tuple (cheap bulk generation)"""
    import random
    n, nregs, seed = t
    r = random.Random(seed)
    params = r.sample(range(nregs), r.randrange(0, min(3, nregs) + 1))
    density = r.choice([0, 1, 2, 4])
    blocks = [[_decode_ins(r.getrandbits(11), nregs) for _ in range(r.randrange(0, density + 1))] for _ in range(n)]
    edges = [(r.randrange(i), i, r.choice(KINDS)) for i in range(1, n)]
    edges += [(r.randrange(n), r.randrange(n), r.choice(KINDS)) for _ in range(r.randrange(0, 2 * n + 1))]
    r.shuffle(edges)
    return _finish(lambda: r.random() < 0.5, r.choice, n, params, blocks, edges)


def programs(max_nodes):
    seeded = st.tuples(st.one_of(st.integers(1, min(5, max_nodes)), st.integers(1, max_nodes)), st.integers(2, 4),
                       st.integers(0, 2 ** 32 - 1)).map(program_from_seed)
    return st.one_of(programs_fine(max_nodes), seeded, seeded, seeded)


def build(case):
    from androguard.decompiler.graph import Graph
    from androguard.decompiler.basic_blocks import StatementBlock, ReturnBlock
    g = Graph()
    nodes = []
    for i, b in enumerate(case['blocks']):
        cls = ReturnBlock if case.get('exit') == i else StatementBlock
        nodes.append(cls('b%d' % i, [Ins(u, l) for u, l in b]))
        g.add_node(nodes[-1])
    for a, b, k in case['edges']:
        if k in (0, 2):
            g.add_edge(nodes[a], nodes[b])
        if k in (1, 2):
            g.add_catch_edge(nodes[a], nodes[b])
    g.entry = nodes[0]
    if case.get('exit') is not None:
        g.exit = nodes[case['exit']]
    g.compute_rpo()
    g.number_ins()
    return g, nodes


def abstract_of(g, params):
    """Reads the abstract program off a numbered Graph (generated or shipped)."""
    nodes = list(g.nodes)
    index = {x: i for i, x in enumerate(nodes)}
    blocks, locs = [], {}
    for i, x in enumerate(nodes):
        blk = []
        for k, (loc, ins) in enumerate(x.get_loc_with_ins()):
            blk.append((tuple(ins.get_used_vars()), ins.get_lhs()))
            locs.setdefault(loc, []).append((i, k))
        blocks.append(blk)
    succ = {}
    for i, x in enumerate(nodes):
        succ[i] = []
        for s in g.all_sucs(x):
            if index[s] not in succ[i]:
                succ[i].append(index[s])
    return nodes, blocks, succ, index[g.entry], locs


def def_class(d, use):
    if d[0] == 'p':
        return 'param'
    if d[0] == '?':
        return 'unknown-loc'
    return 'same-node' if d[1] == use[0] else 'other-node'


def compare(ctx, src, g, params, rec, labels_extra=()):
    """Shared oracle: g is a numbered Graph; rec the replayable case."""
    from androguard.decompiler import dataflow
    nodes, blocks, succ, entry, locs = abstract_of(g, params)
    if len(dm.reachable(succ, entry)) != len(nodes):
        raise HarnessError('input graph has unreachable nodes: %r' % (rec,))
    exp = rd.use_def(blocks, succ, entry, list(params))
    if exp != rd.use_def_backward(blocks, succ, entry, list(params)):
        raise HarnessError('reference searches disagree on %r' % (rec,))
    kinds = dm.dfs(succ, entry)[3]
    loop = any(k == 'back' for k in kinds.values())
    multi = any(len(v) >= 2 for v in exp.values())
    ninst = sum(len(b) for b in blocks)
    labels = ['src:' + src, 'loop' if loop else 'acyclic', 'use-with>=2-defs' if multi else 'single-def-uses',
              'params' if params else 'no-params', 'exit-node' if g.exit is not None else 'no-exit-node',
              'catch-edges' if any(g.catch_edges.get(x) for x in nodes) else 'normal-only',
              'nodes<=3' if len(nodes) <= 3 else 'nodes<=12' if len(nodes) <= 12 else 'nodes>12'] + list(labels_extra)
    key = (tuple(map(tuple, blocks)), tuple(sorted((a, tuple(b)) for a, b in succ.items())), tuple(params))
    ctx.case(nontrivial=loop and multi, key=repr(key), labels=labels,
             sample={'src': src, 'nodes': len(nodes), 'instructions': ninst, 'uses_with_defs': len(exp),
                     'max_defs_per_use': max([len(v) for v in exp.values()] or [0]),
                     'id': rec.get('method') or {'blocks': rec.get('blocks'), 'edges': rec.get('edges'), 'params': rec.get('params')}})
    amb = [l for l, v in locs.items() if len(v) != 1]
    if amb:
        ctx.fail('loc:ambiguous:%s' % src, rec, 'instruction locations %r are shared by several instructions' % (amb[:5],))
        return
    try:
        UD, DU = dataflow.build_def_use(g, list(params))
    except Exception:
        ctx.fail('exception:%s' % src, rec, traceback.format_exc())
        return

    def def_id(loc):
        if isinstance(loc, int) and loc < 0 and -loc - 1 < len(params):
            return ('p', -loc - 1)
        if loc in locs:
            return ('i',) + locs[loc][0]
        return ('?', repr(loc))

    def use_id(loc):
        return locs[loc][0] if loc in locs else ('?', repr(loc))

    got = {}
    for (var, loc), ds in UD.items():
        if ds:
            got[(var, use_id(loc))] = {def_id(d) for d in ds}
    done = set()
    for key_ in sorted(set(got) | set(exp), key=repr):
        g_, e_ = got.get(key_, set()), exp.get(key_, set())
        if g_ == e_:
            continue
        var, use = key_
        for what, ds in (('missing', e_ - g_), ('extra', g_ - e_)):
            for d in sorted(ds, key=repr):
                bucket = 'ud:%s:%s:%s' % (what, def_class(d, use) if use[0] != '?' else 'unknown-use', src)
                if bucket in done:
                    continue
                done.add(bucket)
                r = dict(rec)
                r['detail'] = {'var': repr(var), 'use': list(use), 'definition': list(d),
                               'expected': sorted(map(list, e_), key=repr), 'observed': sorted(map(list, g_), key=repr)}
                ctx.fail(bucket, r, 'register %r read at %r: definition %r is %s in UD (expected %r, observed %r)'
                         % (var, use, d, 'missing' if what == 'missing' else 'not a reaching definition but listed',
                            sorted(e_, key=repr), sorted(g_, key=repr)))
    # DU must be the inverse relation of UD (as androguard returned it)
    inv = {}
    for (var, loc), ds in UD.items():
        for d in ds:
            inv.setdefault((var, d), set()).add(loc)
    du = {k: set(v) for k, v in DU.items() if v}
    if du != inv:
        diff = sorted(set(du) ^ set(inv), key=repr)[:3] or [k for k in du if du[k] != inv.get(k)][:3]
        ctx.fail('du:not-inverse:%s' % src, rec, 'DU is not the inverse of UD, e.g. at %r' % (diff,))


def check_generated(ctx, case):
    rec = {'mode': 'gen', 'params': case['params'], 'blocks': case['blocks'], 'edges': case['edges'], 'exit': case.get('exit')}
    g, nodes = build(case)
    compare(ctx, 'gen', g, case['params'], rec)


# -- shipped DEX files --------------------------------------------------------------------

def emptied():
    p = '/root/.vp/EMPTIED_FILES.txt'
    if os.path.exists(p):
        with open(p) as f:
            return {l.strip() for l in f if l.strip()}
    return set()


def dex_files():
    return sorted(glob.glob(os.path.join(REPO, 'tests/data/APK/*.dex')))


def apk_files():
    skip = emptied()
    out = []
    for p in sorted(glob.glob(os.path.join(REPO, 'tests/data/APK/*.apk'))):
        rel = os.path.relpath(p, REPO)
        if rel in skip or os.path.getsize(p) == 0:
            continue
        out.append(p)
    return out


def load_dex(path, member=None):
    from androguard.core import dex
    if member is None:
        with open(path, 'rb') as f:
            data = f.read()
    else:
        import zipfile
        with zipfile.ZipFile(path) as z:
            data = z.read(member)
    return dex.DEX(data)


def methods_with_code(d):
    return [m for c in d.get_classes() for m in c.get_methods() if m.get_code() is not None]


def check_method(ctx, d, m, rec):
    from androguard.core.analysis import analysis
    from androguard.decompiler.decompile import DvMethod
    from androguard.decompiler.graph import construct
    try:
        dv = DvMethod(analysis.MethodAnalysis(d, m))
        if dv.start_block is None:
            ctx.count('methods_without_blocks')
            return
        g = construct(dv.start_block, dv.var_to_name, dv.exceptions)
    except Exception:
        # building the CFG of a shipped method is not this property's subject; recorded, not judged
        ctx.count('construct_failed')
        return
    compare(ctx, 'dex', g, dv.lparams, rec)


def method_id(m):
    return '%s->%s%s' % (m.get_class_name(), m.get_name(), m.get_descriptor())


def run_dex(ctx, d, rel, member, part, nparts, skip_part=None):
    for i, m in enumerate(methods_with_code(d)):
        if i % nparts != part:
            continue
        if skip_part is not None and (i // nparts) % 4 == skip_part:
            ctx.count('quick_tier_methods_left_to_thorough')
            continue
        check_method(ctx, d, m, {'mode': 'dex', 'file': rel, 'member': member, 'method': method_id(m)})


# -- shards -------------------------------------------------------------------------------

BIG = 200 * 1024


def shards(tier, seed):
    sh = []
    small = [p for p in dex_files() if os.path.getsize(p) < BIG]
    sh.append(('dexes', [os.path.relpath(p, REPO) for p in small]))
    for p in dex_files():
        if os.path.getsize(p) >= BIG:
            parts = 8 if os.path.getsize(p) > 2 ** 20 else 2
            for k in range(parts):
                sh.append(('dex', os.path.relpath(p, REPO), None, k, parts))
    if tier == 'thorough':
        import zipfile
        for p in apk_files():
            try:
                with zipfile.ZipFile(p) as z:
                    members = [n for n in z.namelist() if n.endswith('.dex') and '/' not in n]
            except zipfile.BadZipFile:
                continue
            for mname in members:
                sh.append(('dex', os.path.relpath(p, REPO), mname, 0, 1))
    sh += [('hyp', k) for k in range(8 if tier == 'quick' else 32)]
    return sh


def _preimport():
    """Import everything androguard will need *before* Hypothesis starts: a module imported lazily inside the first
    generated example perturbs Hypothesis' generation, which would make a shard depend on what its worker ran before."""
    import androguard.core.dex                      # noqa: F401
    import androguard.core.analysis.analysis        # noqa: F401
    import androguard.decompiler.decompile          # noqa: F401
    import androguard.decompiler.graph              # noqa: F401
    import androguard.decompiler.dataflow           # noqa: F401
    import androguard.decompiler.control_flow       # noqa: F401
    import androguard.decompiler.writer             # noqa: F401


def run_shard(ctx, shard):
    _preimport()
    kind = shard[0]
    if kind == 'dexes':
        for rel in shard[1]:
            run_dex(ctx, load_dex(os.path.join(REPO, rel)), rel, None, 0, 1)
    elif kind == 'dex':
        _, rel, member, part, nparts = shard
        if member is not None:
            try:
                d = load_dex(os.path.join(REPO, rel), member)
            except Exception as e:          # an APK member androguard cannot parse is not a C20 case
                ctx.count('corpus_dex_unparsable')
                ctx.notes.append('corpus: %s!%s not parsed (%s)' % (rel, member, type(e).__name__))
                return
            run_dex(ctx, d, rel, member, part, nparts)
        else:
            skip = ctx.seed % 4 if (ctx.tier == 'quick' and nparts >= 8) else None
            run_dex(ctx, load_dex(os.path.join(REPO, rel)), rel, None, part, nparts, skip)
    else:
        quick = ctx.tier == 'quick'
        hyp_collect(ctx, programs(12 if quick else 40), check_generated, 1500 if quick else 6000, salt=shard[1])


def replay(ctx, case):
    if case.get('mode') == 'dex':
        d = load_dex(os.path.join(REPO, case['file']), case.get('member'))
        for m in methods_with_code(d):
            if method_id(m) == case['method']:
                check_method(ctx, d, m, {k: case[k] for k in ('mode', 'file', 'member', 'method') if k in case})
                return
        raise HarnessError('method %r not found in %r' % (case['method'], case['file']))
    check_generated(ctx, case)
