"""C11 — the control-flow graph has exactly the successors the bytecode allows.

Same generator as C10 (only 4-byte aligned payloads: DESIGN S-note). Oracle, per basic block reported by androguard:
  * {child block start} == the reference successor set of the block's last instruction (vf.model.cfg: fall-through,
    not-taken side of if/switch, jump target, every case target, nothing after return*/throw, no fall-through after
    goto), restricted to offsets inside the method: a branch / goto / switch-case target before offset 0, at the end
    of the insns array or beyond it (about every 5th generated method has one: 1..200 units before the start, exactly
    at the end, 1..200 units past it, +-0x7fff/-0x8000, +-0x7fffffff/-0x80000000 for goto/32 and switch cases)
    contributes no successor, so the target appears in no childs and in no fathers entry;
  * every childs triple is (offset of the last instruction, target offset, the block that starts at the target);
  * fathers is the inverse relation: block B lists F as father iff F lists B as child, and each father triple
    (target, offset of F's last instruction, F) has its mirrored child triple in F.
Blocks whose last item is a payload pseudo-instruction (data, unreachable) are don't-care for the successor set; they
still take part in the childs/fathers consistency check.
Histories (cfg_common): a share of the cases goes on after the first analysis - the same parsed DEX object is analysed
again ('history:reanalyse:*' buckets: the clauses must hold for the blocks of every analysis, judged by identity), or a
try-free generated method gets another layout installed through EncodedMethod.set_instructions() and is analysed again
('history:set-instructions:*' buckets: judged against the model of the new layout).
"""
from vf.checks import cfg_common as K

PROPERTY = 'C11'
LEVEL = 'exploration'
RULE = ('generated: batches of 1-6 abstract methods as in C10 incl. branches to offset 0, if whose target is its fall-through, goto to itself (goto/32 +0), duplicate switch targets, empty switches, two switches sharing one payload, and (every 4th method, every 4th target there) if/goto/switch-case targets outside the method: before offset 0, exactly at the end, beyond the end, +-0x7fff, +-0x7fffffff (labels oob:*); never targets inside the method that are not instruction starts; shipped: as in C10. non-trivial = the method has a conditional branch and (a switch or a backward edge); distinct = (code bytes, tries); histories (share of the cases, label history:*): 1/4 of the generated batches and every shipped DEX <= 100 kB analyse the SAME parsed DEX object again (second Analysis(d), one more MethodAnalysis(d, m)) and apply the oracle to the blocks of that later analysis; another 1/4 of the generated batches re-assemble each try-free method in another layout (1-4 nops in front, a payload moved), install its disassembly with EncodedMethod.set_instructions() and judge a new MethodAnalysis against the model of the new layout')
ASSUMPTIONS = [
    'vf/gen/dalvik_spec.py, vf/gen/asm.py, vf/gen/dexgen.py and vf/gen/cfggen.py produce well-formed code items (typed from the Dalvik/DEX specifications; the length table tiles every shipped code item)',
    'reference semantics in vf/model/cfg.py: branch and switch-target offsets are relative to the branching instruction (code units), switch falls through, goto/return*/throw do not; a try covers the instructions whose address lies in [start_addr, start_addr+insn_count)',
    "shipped files: models are computed by an own DEX reader and an own table-driven sweep; a method is skipped (counted) when androguard's disassembly tiles the code differently (that is C02's subject) or when a switch payload is not 4-byte aligned (DESIGN S-note, C40 only)",
    'block boundaries and child/father/xref offsets are byte offsets from the start of the insns array, as androguard reports them',
]
EXHAUSTIVE = False


def shards(tier, seed):
    return K.shards(PROPERTY, tier, seed)


def run_shard(ctx, shard):
    K.run_shard(ctx, PROPERTY, shard)


def replay(ctx, case):
    K.replay(ctx, PROPERTY, case)
