"""C13 — method cross-references are exact and symmetric.

Generated part: vf.gen.xrefgen models (2..5 classes in 1..4 DEX files, every invoke kind in 35c and 3rc form, targets in
the own class / another internal class / another DEX / external classes / undefined (inherited) members of internal
classes / array classes, repeated call sites). The abstract model gives, per method, the (offset, opcode, callee) list;
androguard's Analysis must report exactly that:
  xref_to      MethodAnalysis.get_xref_to()   == {(callee class, callee, offset)} of the method's invoke instructions
  xref_from    MethodAnalysis.get_xref_from() == mirror image, for analysed methods and for external stubs
  resolve      a callee is internal and wraps the defining EncodedMethod iff (class, name, descriptor) is defined in an
               added DEX; otherwise it is external and ONE stub object is shared by all call sites of that key
  class_xref   ClassAnalysis.get_xref_to/from restricted to invoke kinds == {(other class, REF_TYPE(op), method, offset)}
  callgraph    get_call_graph() has the edge (caller, callee) iff a callee is reported
Shipped part: the same clauses over shipped DEX/APK files, the call-site list being read from the raw code units with
vf.gen.dalvik_spec (indices resolved by the DEX parser, not by analysis.py).

Open finding array-receiver: an invoke whose method reference names an array class ('[I', '[Lp/C0;') is dropped or
re-attributed to the element class. A mismatch that is *exactly* what that defect model predicts goes to a
'<clause>:array-receiver' bucket; the main generator shards leave array receivers out (counted), dedicated shards keep them.
"""
from vf.gen import xrefgen as X
from vf.checks import _xref as A

PROPERTY = 'C13'
LEVEL = 'exploration'
RULE = ('generated: xrefgen model (2..5 classes over 1..4 DEX files; bodies of 1..13 reference instructions drawn from all '
        '10 invoke opcodes x {own class, other class, other DEX, external, undefined/inherited, array receiver} plus '
        'field/string/type instructions and fillers) -> DEX bytes -> Analysis; every xref getter compared with the model. '
        'shipped: every method of the shipped DEX/APK files, call sites read from the raw code units. non-trivial = >=1 '
        'internal callee, >=1 external callee and one callee called from one method at >=2 offsets; distinct = model')
ASSUMPTIONS = ['vf/gen/dexgen.py writes well-formed DEX files; vf/gen/asm.py + dalvik_spec.py give instruction sizes/offsets',
               'invoke-polymorphic / invoke-custom are outside the quantifier (five invoke kinds and their /range forms)',
               'shipped files: pool indices are resolved to names by androguard.core.dex (parser), not by analysis.py']


# ---------------------------------------------------------------------------------------------- oracle
def _flat(d):
    return {(k, e) for k, s in d.items() for e in s}


def _clause(ctx, case, name, obs, exp_c, exp_d):
    if obs == exp_c:
        return True
    known = exp_d is not None and obs == exp_d
    missing, extra = exp_c - obs, obs - exp_c
    if known:
        bucket = name + ':array-receiver'
    else:
        bucket = name + (':both' if missing and extra else ':missing' if missing else ':extra')
    ctx.fail(bucket, dict(case, clause=name, missing=A.short(missing), extra=A.short(extra), defect_model_match=known,
                          n_missing=len(missing), n_extra=len(extra)),
             '%s: %d expected entries missing, %d unexpected; e.g. missing %r extra %r' % (
                 name, len(missing), len(extra), A.short(missing, 2), A.short(extra, 2)))
    return False


def check(ctx, exp, dx, vms, case):
    """All C13 clauses on one analysis. Returns the snapshot (or None)."""
    try:
        snap = A.snapshot(dx)
    except A.AnalysisFailure as e:
        ctx.fail('exception:' + e.where, case, e.tb)
        return None
    Ec = A.derive(exp)
    Ed = A.derive(exp, array_defect=True) if A.has_array_receiver(exp) else None
    dm = exp['defined_methods']

    def both(f):
        return f(Ec), (f(Ed) if Ed is not None else None)
    # method level
    obs_to = {(k, e) for k, ent in snap['m'].items() for e in ent['to']}
    obs_from = {(k, e) for k, ent in snap['m'].items() for e in ent['from']}
    _clause(ctx, case, 'xref_to', obs_to, *both(lambda E: _flat(E['m_to'])))
    _clause(ctx, case, 'xref_from', obs_from, *both(lambda E: _flat(E['m_from'])))
    # class level (invoke kinds only; const-class / new-instance entries belong to C15)
    obs_cto = {(c, e) for c, ent in snap['c'].items() for e in ent['to'] if e[1] in A.INVOKES}
    obs_cfrom = {(c, e) for c, ent in snap['c'].items() for e in ent['from'] if e[1] in A.INVOKES}
    _clause(ctx, case, 'class_xref_to', obs_cto, *both(lambda E: _flat(E['c_to'])))
    _clause(ctx, case, 'class_xref_from', obs_cfrom, *both(lambda E: _flat(E['c_from'])))
    # call graph
    _clause(ctx, case, 'callgraph', set(snap['cg_edges']), *both(lambda E: E['cg']))
    dup = [k for k, n in snap['cg_nodes'].items() if n > 1]
    ctx.check(not dup, 'callgraph:duplicate-node', lambda: dict(case, clause='callgraph', duplicates=A.short(dup)),
              'two call-graph nodes for one method key: %r' % (dup[:2],))
    # resolution: every defined method once and internal; every undefined callee exactly one external stub.
    # (methods that are reported but neither defined nor called are not constrained by the statement)
    def resolve_view(E):
        keys = {k for (k, _) in E['methods']}
        return ({(k, ext, n) for ((k, ext), n) in snap['methods'].items() if k in keys},
                {(k, ext, 1) for (k, ext) in E['methods']})
    o_c, w_c = resolve_view(Ec)
    if o_c != w_c:
        known = False
        if Ed is not None:
            o_d, w_d = resolve_view(Ed)
            known = o_d == w_d
        missing, extra = w_c - o_c, o_c - w_c
        ctx.fail('resolve:array-receiver' if known else 'resolve' + (':both' if missing and extra else ':missing' if missing else ':extra'),
                 dict(case, clause='resolve', missing=A.short(missing), extra=A.short(extra), defect_model_match=known),
                 'resolve (method key, external?, number of MethodAnalysis objects): missing %r extra %r' % (
                     A.short(missing, 2), A.short(extra, 2)))
    # callee classes exist with the right kind
    bad = []
    for cn in Ec['callee_classes']:
        got = snap['classes'].get(cn)
        want = cn not in exp['internal']
        if got is None or got[0] != cn or got[1] != want:
            bad.append((cn, got, want))
    if bad:
        arr_only = Ed is not None and all(cn.startswith('[') for (cn, _, _) in bad)
        ctx.fail('callee-class' + (':array-receiver' if arr_only else ''),
                 dict(case, clause='callee-class', missing=A.short(bad), extra=[], defect_model_match=arr_only),
                 'callee class missing or of the wrong kind (name, reported (name, external), expected external): %r' % (bad[:3],))
    # object identity
    em_of = {}
    for vm in vms:
        for c in vm.get_classes():
            for m in c.get_methods():
                em_of[A.method_key(m)] = m
    stubs = {}
    ident = []
    for ma in dx.get_methods():
        for (ca, callee, off) in ma.get_xref_to():
            k = A.method_key(callee.get_method())
            if k in dm:
                if callee.is_external() or callee.get_method() is not em_of.get(k) or dx.get_method_analysis(em_of[k]) is not callee:
                    ident.append(('internal-callee-not-the-analysed-method', A.method_key(ma.get_method()), off, k))
            else:
                if not callee.is_external():
                    ident.append(('undefined-callee-not-external', A.method_key(ma.get_method()), off, k))
                first = stubs.setdefault(k, callee)
                if first is not callee:
                    ident.append(('second-stub-object', A.method_key(ma.get_method()), off, k))
            if dx.classes.get(k[0]) is not ca:
                ident.append(('callee-class-object', A.method_key(ma.get_method()), off, k))
        for (ca, caller, off) in ma.get_xref_from():
            k = A.method_key(caller.get_method())
            if k not in em_of or dx.get_method_analysis(em_of[k]) is not caller or dx.classes.get(k[0]) is not ca:
                ident.append(('caller-object', A.method_key(ma.get_method()), off, k))
    if ident:
        ctx.fail('identity:' + ident[0][0], dict(case, clause='identity', problems=A.short(ident)),
                 'object identity: %r' % (ident[:3],))
    return snap


# ---------------------------------------------------------------------------------------------- generated cases
def _labels(model, exp):
    dm = exp['defined_methods']
    dexof = X.dex_of(model)
    labels = set()
    internal = external = False
    repeated = False
    for mk, sl in exp['sites'].items():
        seen = {}
        for (off, op, kind, tgt) in sl:
            if kind != 'inv':
                continue
            labels.add('op:%02x' % op)
            if tgt[0].startswith('['):
                labels.add('target:array')
            elif tgt in dm:
                internal = True
                if tgt[0] == mk[0]:
                    labels.add('target:own-class')
                elif dexof[tgt[0]] == dexof[mk[0]]:
                    labels.add('target:other-class')
                else:
                    labels.add('target:other-dex')
            else:
                external = True
                labels.add('target:undefined-member-of-internal-class' if tgt[0] in exp['internal'] else 'target:external')
            seen[tgt] = seen.get(tgt, 0) + 1
        if any(n > 1 for n in seen.values()):
            repeated = True
    if repeated:
        labels.add('repeated-call')
    labels.add('ndex:%d' % model['ndex'])
    return sorted(labels), (internal and external and repeated)


def run_model(ctx, model, record=True):
    model = X.normalize(model)
    case = {'mode': 'model', 'model': model}
    exp = A.exp_from_model(model)
    datas = [b for (b, _) in X.build(model)]
    labels, nt = _labels(model, exp)
    if record:
        ctx.case(nontrivial=nt, key=repr(model), labels=labels,
                 sample={'classes': [c['name'] for c in model['classes']], 'ndex': model['ndex'],
                         'sites': {'%s->%s%s' % k: [[o, '%02x' % op, kd, t] for (o, op, kd, t) in v][:6]
                                   for k, v in list(exp['sites'].items())[:2]}})
    try:
        dx, vms = A.analyse(datas)
    except A.AnalysisFailure as e:
        ctx.fail('exception:' + e.where, case, e.tb)
        return
    check(ctx, exp, dx, vms, case)


def run_file(ctx, name):
    case = {'mode': 'file', 'name': name}
    datas = A.load_file(name)
    if not datas:
        ctx.count('shipped_without_dex')
        return
    try:
        vms = [A.parse(d) for d in datas]
    except A.AnalysisFailure as e:
        ctx.count('shipped_unparsable')
        return
    exp = A.exp_from_vms(vms)
    if isinstance(exp, str):
        ctx.count('shipped_skipped:' + exp)
        return
    ninv = sum(1 for sl in exp['sites'].values() for s in sl if s[2] == 'inv')
    ctx.case(nontrivial=ninv > 1, key='file:' + name, labels=['shipped', 'shipped:ndex:%d' % len(vms)],
             sample={'file': name, 'methods': len(exp['sites']), 'invoke_sites': ninv})
    ctx.count('shipped_invoke_sites', ninv)
    try:
        dx = A.analyse_vms(vms)
    except A.AnalysisFailure as e:
        ctx.fail('exception:' + e.where, case, e.tb)
        return
    check(ctx, exp, dx, vms, case)


def _run_noarr(ctx, model, record=True):
    if record:
        ctx.count('excluded_by_known_finding:array-receiver')
    run_model(ctx, model, record)


def shards(tier, seed):
    n = 12 if tier == 'quick' else 40
    sh = [('gen', k) for k in range(n)] + [('gen-arrays', k) for k in range(3 if tier == 'quick' else 8)]
    return sh + A.file_shards(tier)


def run_shard(ctx, shard):
    n = 800 if ctx.tier == 'quick' else 2500
    if shard[0] == 'gen':
        A.collect(ctx, X.models(profile='invokes', array_invokes=False), _run_noarr, n, salt=shard[1])
    elif shard[0] == 'gen-arrays':
        # array receivers kept; mismatches of the known shape are not reduced (the finding has its probe cases)
        A.collect(ctx, X.models(profile='invokes', array_invokes=True), run_model, n, salt=100 + shard[1],
                  skip=lambda b: b.endswith(':array-receiver'))
    else:
        for name in shard[1]:
            run_file(ctx, name)


def replay(ctx, case):
    if case['mode'] == 'model':
        run_model(ctx, case['model'], record=False)
    else:
        run_file(ctx, case['name'])


def _strs(o):
    if isinstance(o, str):
        yield o
    elif isinstance(o, (list, tuple)):
        for x in o:
            for s in _strs(x):
                yield s


def _m_array(bucket, case, msg):
    """Only the failure shape of the array-receiver defect: the clause differs from the statement exactly as the defect
    model (drop '[prim', re-attribute '[Lx;' to 'Lx;') predicts, and every missing entry names an array class."""
    if not bucket.endswith(':array-receiver') or not case.get('defect_model_match'):
        return False
    missing = case.get('missing') or []
    return bool(missing) and all(any(s.startswith('[') for s in _strs(e)) for e in missing)


MATCHERS = {'array_receiver': _m_array}
