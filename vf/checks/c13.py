"""C13 — method cross-references are exact and symmetric.

Generated part: vf.gen.xrefgen models (2..5 classes in 1..4 DEX files, every invoke kind in 35c and 3rc form, targets in
the own class / another internal class / another DEX / external classes / undefined (inherited) members of internal
classes / array classes, repeated call sites). The abstract model gives, per method, the (offset, opcode, callee) list;
androguard's Analysis must report exactly that:
  xref_to      MethodAnalysis.get_xref_to()   == {(callee class, callee, offset)} of the method's invoke instructions
  xref_from    MethodAnalysis.get_xref_from() == mirror image, for analysed methods and for external stubs
  resolve      a callee is internal and wraps the defining EncodedMethod iff (class, name, descriptor) is defined in an
               added DEX; otherwise it is external and ONE stub object is shared by all call sites of that key
  class_xref   ClassAnalysis.get_xref_to/from restricted to invoke kinds == {(other class, REF_TYPE(op), method, offset)}
  callgraph    get_call_graph() has the edge (caller, callee) iff a callee is reported
History part (a share of the generated cases, drawn with the case): the Analysis is built step by step and
get_call_graph() is requested several times during its life, with a small pool of filter argument sets (class / method
name / descriptor / access-flag regexes, no_isolated): before create_xref(), after it, repeatedly with identical filters,
and after the caller removed nodes/edges from (cleared, added an edge to) a graph it was handed earlier. Every graph
that is handed out must satisfy the callgraph clause *at the time of the request*: before create_xref() no callee is
reported, so there is no edge; afterwards the edges are the model's (caller, callee) pairs whose caller passes the
filters. Nothing is asserted about a graph after the caller has modified it. Buckets 'history:callgraph:<shape>:...'.
Payloads in the middle of the code (xrefgen 'mid' sites: switch / fill-array-data payload jumped over by a goto) put invokes
behind a payload pseudo-instruction; a method's callees are the targets of ALL its invokes, wherever they are located.
Large-pool part (one shard, a handful of cases): single-DEX models whose pools are padded with unreferenced filler entries
so that the invoked methods (35c / 3rc BBBB) and their classes sit on indices 0x7fff / 0x8000 / 0x8001 / .. 0xffff.
Shipped part: the same clauses over shipped DEX/APK files, the call-site list being read from the raw code units with
vf.gen.dalvik_spec (indices resolved by the DEX parser, not by analysis.py).

Open finding array-receiver: an invoke whose method reference names an array class ('[I', '[Lp/C0;') is dropped or
re-attributed to the element class. A mismatch that is *exactly* what that defect model predicts goes to a
'<clause>:array-receiver' bucket; the main generator shards leave array receivers out (counted), dedicated shards keep them.
"""
import re
import traceback
from collections import Counter

from hypothesis import strategies as st

from vf.gen import xrefgen as X
from vf.checks import _xref as A

PROPERTY = 'C13'
LEVEL = 'exploration'
RULE = ('generated: xrefgen model (2..5 classes over 1..4 DEX files; bodies of 1..13 reference instructions drawn from all '
        '10 invoke opcodes x {own class, other class, other DEX, external, undefined/inherited, array receiver} plus '
        'field/string/type instructions and fillers) -> DEX bytes -> Analysis; every xref getter compared with the model. '
        'roughly half of the generated cases also carry a drawn call-graph history (get_call_graph requests with 1..2 filter '
        'argument sets before / after create_xref, repeated, and after the caller modified a graph it was handed); every '
        'graph handed out is checked against the clause as of the time of the request. bodies contain switch / fill-array-data '
        'payloads in the middle of the code (invokes behind a payload); one shard analyses a few single-DEX models padded to '
        '> 0x8000 / 0xffff pool entries with the invoked methods on the index boundaries. '
        'shipped: every method of the shipped DEX/APK files, call sites read from the raw code units. non-trivial = >=1 '
        'internal callee, >=1 external callee and one callee called from one method at >=2 offsets; distinct = model')
ASSUMPTIONS = ['vf/gen/dexgen.py writes well-formed DEX files; vf/gen/asm.py + dalvik_spec.py give instruction sizes/offsets',
               'invoke-polymorphic / invoke-custom are outside the quantifier (five invoke kinds and their /range forms)',
               'shipped files: pool indices are resolved to names by androguard.core.dex (parser), not by analysis.py']


# ---------------------------------------------------------------------------------------------- oracle
def _flat(d):
    return {(k, e) for k, s in d.items() for e in s}


def _clause(ctx, case, name, obs, exp_c, exp_d):
    if obs == exp_c:
        return True
    known = exp_d is not None and obs == exp_d
    missing, extra = exp_c - obs, obs - exp_c
    if known:
        bucket = name + ':array-receiver'
    else:
        bucket = name + (':both' if missing and extra else ':missing' if missing else ':extra')
    ctx.fail(bucket, dict(case, clause=name, missing=A.short(missing), extra=A.short(extra), defect_model_match=known,
                          n_missing=len(missing), n_extra=len(extra)),
             '%s: %d expected entries missing, %d unexpected; e.g. missing %r extra %r' % (
                 name, len(missing), len(extra), A.short(missing, 2), A.short(extra, 2)))
    return False


def check(ctx, exp, dx, vms, case):
    """All C13 clauses on one analysis. Returns the snapshot (or None)."""
    try:
        snap = A.snapshot(dx)
    except A.AnalysisFailure as e:
        ctx.fail('exception:' + e.where, case, e.tb)
        return None
    Ec = A.derive(exp)
    Ed = A.derive(exp, array_defect=True) if A.has_array_receiver(exp) else None
    dm = exp['defined_methods']

    def both(f):
        return f(Ec), (f(Ed) if Ed is not None else None)
    # method level
    obs_to = {(k, e) for k, ent in snap['m'].items() for e in ent['to']}
    obs_from = {(k, e) for k, ent in snap['m'].items() for e in ent['from']}
    _clause(ctx, case, 'xref_to', obs_to, *both(lambda E: _flat(E['m_to'])))
    _clause(ctx, case, 'xref_from', obs_from, *both(lambda E: _flat(E['m_from'])))
    # class level (invoke kinds only; const-class / new-instance entries belong to C15)
    obs_cto = {(c, e) for c, ent in snap['c'].items() for e in ent['to'] if e[1] in A.INVOKES}
    obs_cfrom = {(c, e) for c, ent in snap['c'].items() for e in ent['from'] if e[1] in A.INVOKES}
    _clause(ctx, case, 'class_xref_to', obs_cto, *both(lambda E: _flat(E['c_to'])))
    _clause(ctx, case, 'class_xref_from', obs_cfrom, *both(lambda E: _flat(E['c_from'])))
    # call graph
    _clause(ctx, case, 'callgraph', set(snap['cg_edges']), *both(lambda E: E['cg']))
    dup = [k for k, n in snap['cg_nodes'].items() if n > 1]
    ctx.check(not dup, 'callgraph:duplicate-node', lambda: dict(case, clause='callgraph', duplicates=A.short(dup)),
              'two call-graph nodes for one method key: %r' % (dup[:2],))
    # resolution: every defined method once and internal; every undefined callee exactly one external stub.
    # (methods that are reported but neither defined nor called are not constrained by the statement)
    def resolve_view(E):
        keys = {k for (k, _) in E['methods']}
        return ({(k, ext, n) for ((k, ext), n) in snap['methods'].items() if k in keys},
                {(k, ext, 1) for (k, ext) in E['methods']})
    o_c, w_c = resolve_view(Ec)
    if o_c != w_c:
        known = False
        if Ed is not None:
            o_d, w_d = resolve_view(Ed)
            known = o_d == w_d
        missing, extra = w_c - o_c, o_c - w_c
        ctx.fail('resolve:array-receiver' if known else 'resolve' + (':both' if missing and extra else ':missing' if missing else ':extra'),
                 dict(case, clause='resolve', missing=A.short(missing), extra=A.short(extra), defect_model_match=known),
                 'resolve (method key, external?, number of MethodAnalysis objects): missing %r extra %r' % (
                     A.short(missing, 2), A.short(extra, 2)))
    # callee classes exist with the right kind
    bad = []
    for cn in Ec['callee_classes']:
        got = snap['classes'].get(cn)
        want = cn not in exp['internal']
        if got is None or got[0] != cn or got[1] != want:
            bad.append((cn, got, want))
    if bad:
        arr_only = Ed is not None and all(cn.startswith('[') for (cn, _, _) in bad)
        ctx.fail('callee-class' + (':array-receiver' if arr_only else ''),
                 dict(case, clause='callee-class', missing=A.short(bad), extra=[], defect_model_match=arr_only),
                 'callee class missing or of the wrong kind (name, reported (name, external), expected external): %r' % (bad[:3],))
    # object identity
    em_of = {}
    for vm in vms:
        for c in vm.get_classes():
            for m in c.get_methods():
                em_of[A.method_key(m)] = m
    stubs = {}
    ident = []
    for ma in dx.get_methods():
        for (ca, callee, off) in ma.get_xref_to():
            k = A.method_key(callee.get_method())
            if k in dm:
                if callee.is_external() or callee.get_method() is not em_of.get(k) or dx.get_method_analysis(em_of[k]) is not callee:
                    ident.append(('internal-callee-not-the-analysed-method', A.method_key(ma.get_method()), off, k))
            else:
                if not callee.is_external():
                    ident.append(('undefined-callee-not-external', A.method_key(ma.get_method()), off, k))
                first = stubs.setdefault(k, callee)
                if first is not callee:
                    ident.append(('second-stub-object', A.method_key(ma.get_method()), off, k))
            if dx.classes.get(k[0]) is not ca:
                ident.append(('callee-class-object', A.method_key(ma.get_method()), off, k))
        for (ca, caller, off) in ma.get_xref_from():
            k = A.method_key(caller.get_method())
            if k not in em_of or dx.get_method_analysis(em_of[k]) is not caller or dx.classes.get(k[0]) is not ca:
                ident.append(('caller-object', A.method_key(ma.get_method()), off, k))
    if ident:
        ctx.fail('identity:' + ident[0][0], dict(case, clause='identity', problems=A.short(ident)),
                 'object identity: %r' % (ident[:3],))
    return snap


# ---------------------------------------------------------------------------------------------- call-graph histories
# history = {'filters': [filt, ...], 'steps': [step, ...]}                                   (JSON-able, part of the case)
#   filt  = {'classes': [name..]|None, 'names': [..]|None, 'descs': [..]|None, 'flag': word|None, 'no_isolated': bool}
#           a None component is left at its default ('.*'); the others become '^(?:a|b)$' / '^.*\bword\b.*$', which mean
#           the same under re.match / re.search / re.fullmatch, so the oracle is plain set membership on the caller
#   step  = ['cg', i]            request get_call_graph(**filters[i]) and check the clause
#           ['xref']             create_xref() (exactly once per history)
#           ['mut', kind, g, k]  modify the graph returned by the g-th (mod count) earlier request the way a caller does
#                                before plotting: kind 'node' / 'hub' / 'edge' / 'clear' / 'clear-edges' / 'add-edge'
FLAG_WORDS = {0x1: 'public', 0x2: 'private', 0x8: 'static', 0x100: 'native', 0x400: 'abstract', 0x10000: 'constructor'}
MUT_KINDS = ['node', 'hub', 'edge', 'clear', 'clear-edges', 'add-edge']


def _alt(names):
    return '^(?:%s)$' % '|'.join(re.escape(n) for n in names)


def _kwargs(filt):
    kw = {}
    if filt.get('classes') is not None:
        kw['classname'] = _alt(filt['classes'])
    if filt.get('names') is not None:
        kw['methodname'] = _alt(filt['names'])
    if filt.get('descs') is not None:
        kw['descriptor'] = _alt(filt['descs'])
    if filt.get('flag') is not None:
        kw['accessflags'] = r'^.*\b%s\b.*$' % re.escape(filt['flag'])
    if filt.get('no_isolated'):
        kw['no_isolated'] = True
    return kw


def _fkey(filt):
    """two filters with the same key are the same request"""
    return repr(sorted(_kwargs(filt).items()))


def _passes(filt, mk, flags):
    """does the method mk (access flag words `flags`) pass the filters? (oracle side: no regular expressions)"""
    return ((filt.get('classes') is None or mk[0] in filt['classes']) and
            (filt.get('names') is None or mk[1] in filt['names']) and
            (filt.get('descs') is None or mk[2] in filt['descs']) and
            (filt.get('flag') is None or filt['flag'] in flags.get(mk, ())))


def flags_of(dexfiles):
    """{mk: set of access-flag words} of the defined methods, from the writer's input (not from androguard)."""
    out = {}
    for df in dexfiles:
        for c in df.classes:
            for m in list(c.dmethods) + list(c.vmethods):
                out[(c.name, m.name, A.desc(m.ret, m.params))] = {w for b, w in FLAG_WORDS.items() if m.access & b}
    return out


def _gkey(n):
    return A.method_key(n)


def _mutate(g, kind, k):
    """what a caller does with a graph it received; deterministic in the graph's content (by method key)."""
    nodes = sorted(g.nodes(), key=_gkey)
    edges = sorted(g.edges(), key=lambda e: (_gkey(e[0]), _gkey(e[1])))
    if kind == 'clear':
        g.clear()
    elif kind == 'clear-edges':
        g.remove_edges_from(edges)
    elif kind == 'node' and nodes:
        g.remove_node(nodes[k % len(nodes)])
    elif kind == 'hub' and nodes:
        g.remove_node(max(nodes, key=lambda n: (g.degree(n), _gkey(n))))
    elif kind == 'edge' and edges:
        g.remove_edge(*edges[k % len(edges)])
    elif kind == 'add-edge' and len(nodes) > 1:
        free = [(a, b) for a in nodes for b in nodes if a is not b and not g.has_edge(a, b)]
        if free:
            g.add_edge(*free[k % len(free)])


def run_history(ctx, exp, flags, vms, hist, case):
    """Build the Analysis step by step, following hist; check the callgraph clause on every graph handed out.
    -> dx after the whole history (create_xref done), or None when androguard raised."""
    from androguard.core.analysis import analysis
    try:
        dx = analysis.Analysis()
        for vm in vms:
            dx.add(vm)
    except Exception:
        ctx.fail('exception:Analysis.add', case, traceback.format_exc())
        return None
    Ec = A.derive(exp)['cg']
    Ed = A.derive(exp, array_defect=True)['cg'] if A.has_array_receiver(exp) else None
    filters = hist['filters']
    graphs = []                 # every graph handed out so far
    xref_done = False
    asked_before_xref = set()   # filter argument sets (_fkey) requested before create_xref()
    asked = set()               # ... requested at all
    touched = set()             # ... for which a graph handed out earlier was modified by the caller
    owner = []                  # graphs[i] was requested with the filter arguments owner[i]
    for si, step in enumerate(hist['steps']):
        if step[0] == 'xref':
            if xref_done:
                continue
            try:
                dx.create_xref()
            except Exception:
                ctx.fail('exception:create_xref', case, traceback.format_exc())
                return None
            xref_done = True
        elif step[0] == 'mut':
            if graphs:
                gi = step[2] % len(graphs)
                _mutate(graphs[gi], step[1], step[3])
                touched.add(owner[gi])
        else:
            filt = filters[step[1] % len(filters)]
            fi = _fkey(filt)
            try:
                g = dx.get_call_graph(**_kwargs(filt))
                obs = Counter((A.method_key(a), A.method_key(b)) for (a, b) in g.edges())
                reported = None if xref_done else {(A.method_key(ma.get_method()), A.method_key(callee.get_method()))
                                                   for ma in dx.get_methods() for (_, callee, _) in ma.get_xref_to()}
            except Exception:
                ctx.fail('exception:history:get_call_graph', dict(case, step=si), traceback.format_exc())
                return None
            shape = ('before-create_xref' if not xref_done else
                     'after-caller-modified-graph' if fi in touched else
                     'requested-before-create_xref' if fi in asked_before_xref else
                     'repeated' if fi in asked else 'first')
            name = 'history:callgraph:' + shape
            hcase = dict(case, step=si, filter=filt, kwargs=_kwargs(filt))
            if xref_done:
                # the statement's clause against the model: (caller, callee) of every invoke whose caller passes the filters
                want_c = {e for e in Ec if _passes(filt, e[0], flags)}
                want_d = {e for e in Ed if _passes(filt, e[0], flags)} if Ed is not None else None
                _clause(ctx, hcase, name, set(obs), want_c, want_d)
                if want_c:
                    ctx.count('history_graphs_with_edges')
            else:
                # nothing analysed yet: "an edge exactly where a callee is reported" against what the methods report now
                _clause(ctx, hcase, name, set(obs), {e for e in reported if _passes(filt, e[0], flags)}, None)
            ctx.count('history_graphs_checked')
            graphs.append(g)
            owner.append(fi)
            asked.add(fi)
            if not xref_done:
                asked_before_xref.add(fi)
    if not xref_done:
        try:
            dx.create_xref()
        except Exception:
            ctx.fail('exception:create_xref', case, traceback.format_exc())
            return None
    return dx


def _hist_labels(hist):
    labels = {'history'}
    seen_x = False
    pre, asked, touched, owner = set(), set(), set(), []
    for step in hist['steps']:
        if step[0] == 'xref':
            seen_x = True
        elif step[0] == 'mut':
            if owner:
                touched.add(owner[step[2] % len(owner)])
                labels.add('history:mut:' + step[1])
        else:
            f = hist['filters'][step[1] % len(hist['filters'])]
            fi = _fkey(f)
            if any(f.get(k) is not None for k in ('classes', 'names', 'descs', 'flag')) or f.get('no_isolated'):
                labels.add('history:filtered-request')
            if seen_x:
                if fi in touched:
                    labels.add('history:request-after-caller-modified-graph')
                if fi in pre:
                    labels.add('history:request-before-and-after-create_xref')
                if fi in asked:
                    labels.add('history:repeated-request')
            else:
                pre.add(fi)
            asked.add(fi)
            owner.append(fi)
    return labels


@st.composite
def histories(draw, model):
    """history for one model: 1..2 filter sets (names taken from the model), requests before / after create_xref(), caller
    modifications of graphs handed out earlier."""
    callers = [(c['name'], m['name'], A.desc(m['ret'], m['params'])) for c in model['classes'] for m in c['methods'] if m['code']]
    classes = sorted({c['name'] for c in model['classes']}) + ['Lext/E0;']

    def some(pool):
        pool = sorted(set(pool))
        return st.lists(st.sampled_from(pool), min_size=1, max_size=2, unique=True) if pool else st.none()
    plain = {'classes': None, 'names': None, 'descs': None, 'flag': None, 'no_isolated': False}
    filt = st.one_of(
        st.just(plain),
        st.fixed_dictionaries({
            'classes': st.one_of(st.none(), some(classes)),
            'names': st.one_of(st.none(), st.none(), some([k[1] for k in callers])),
            'descs': st.one_of(st.none(), st.none(), some([k[2] for k in callers])),
            'flag': st.sampled_from([None, None, None, 'public', 'static', 'private', 'constructor']),
            'no_isolated': st.booleans()}))
    filters = draw(st.lists(filt, min_size=1, max_size=2))
    nf = len(filters)
    cg = st.tuples(st.just('cg'), st.integers(0, nf - 1)).map(list)
    mut = st.tuples(st.just('mut'), st.sampled_from(MUT_KINDS), st.integers(0, 3), st.integers(0, 7)).map(list)
    before = draw(st.lists(st.one_of(cg, cg, mut), min_size=0, max_size=2))
    after = draw(st.lists(st.one_of(cg, cg, mut), min_size=1, max_size=5))
    return {'filters': filters, 'steps': before + [['xref']] + after + [['cg', draw(st.integers(0, nf - 1))]]}


@st.composite
def cases(draw, array_invokes, share=4):
    """(model, history or None); `share` in 10 cases carry a history."""
    model = draw(X.models(profile='invokes', array_invokes=array_invokes))
    if draw(st.integers(0, 9)) >= share:
        return (model, None)
    return (model, draw(histories(model)))


# ---------------------------------------------------------------------------------------------- generated cases
def _labels(model, exp):
    dm = exp['defined_methods']
    dexof = X.dex_of(model)
    labels = set()
    internal = external = False
    repeated = False
    for mk, sl in exp['sites'].items():
        seen = {}
        for (off, op, kind, tgt) in sl:
            if kind != 'inv':
                continue
            labels.add('op:%02x' % op)
            if tgt[0].startswith('['):
                labels.add('target:array')
            elif tgt in dm:
                internal = True
                if tgt[0] == mk[0]:
                    labels.add('target:own-class')
                elif dexof[tgt[0]] == dexof[mk[0]]:
                    labels.add('target:other-class')
                else:
                    labels.add('target:other-dex')
            else:
                external = True
                labels.add('target:undefined-member-of-internal-class' if tgt[0] in exp['internal'] else 'target:external')
            seen[tgt] = seen.get(tgt, 0) + 1
        if any(n > 1 for n in seen.values()):
            repeated = True
    if repeated:
        labels.add('repeated-call')
    labels.add('ndex:%d' % model['ndex'])
    labels |= X.payload_labels(model, kinds=('inv',))
    return sorted(labels), (internal and external and repeated)


def run_model(ctx, model, record=True, history=None):
    model = X.normalize(model)
    case = {'mode': 'model', 'model': model}
    if history is not None:
        case['history'] = history
    exp = A.exp_from_model(model)
    built = X.build(model)
    datas = [b for (b, _) in built]
    labels, nt = _labels(model, exp)
    if record:
        if history is not None:
            labels = sorted(set(labels) | _hist_labels(history))
        if model.get('bulk'):
            labels = sorted(set(labels) | {'large-pool'} |
                            {l for l in X.index_labels(model, [df for (_, df) in built]) if l.startswith('idx:inv:')})
        ctx.case(nontrivial=nt, key=repr(model) + repr(history or ''), labels=labels,
                 sample={'classes': [c['name'] for c in model['classes']], 'ndex': model['ndex'],
                         'sites': {'%s->%s%s' % k: [[o, '%02x' % op, kd, t] for (o, op, kd, t) in v][:6]
                                   for k, v in list(exp['sites'].items())[:2]},
                         'history': history, 'bulk': model.get('bulk')})
    try:
        if history is None:
            dx, vms = A.analyse(datas)
        else:
            vms = [A.parse(d) for d in datas]
            dx = run_history(ctx, exp, flags_of([df for (_, df) in built]), vms, history, case)
            if dx is None:
                return
    except A.AnalysisFailure as e:
        ctx.fail('exception:' + e.where, case, e.tb)
        return
    check(ctx, exp, dx, vms, case)


def run_case(ctx, value, record=True):
    """value = (model, history or None)"""
    run_model(ctx, value[0], record, history=value[1])


def run_file(ctx, name):
    case = {'mode': 'file', 'name': name}
    datas = A.load_file(name)
    if not datas:
        ctx.count('shipped_without_dex')
        return
    try:
        vms = [A.parse(d) for d in datas]
    except A.AnalysisFailure as e:
        ctx.count('shipped_unparsable')
        return
    exp = A.exp_from_vms(vms)
    if isinstance(exp, str):
        ctx.count('shipped_skipped:' + exp)
        return
    ninv = sum(1 for sl in exp['sites'].values() for s in sl if s[2] == 'inv')
    ctx.case(nontrivial=ninv > 1, key='file:' + name, labels=['shipped', 'shipped:ndex:%d' % len(vms)],
             sample={'file': name, 'methods': len(exp['sites']), 'invoke_sites': ninv})
    ctx.count('shipped_invoke_sites', ninv)
    try:
        dx = A.analyse_vms(vms)
    except A.AnalysisFailure as e:
        ctx.fail('exception:' + e.where, case, e.tb)
        return
    check(ctx, exp, dx, vms, case)


def _run_noarr(ctx, value, record=True):
    if record:
        ctx.count('excluded_by_known_finding:array-receiver')
    run_case(ctx, value, record)


def _hist_candidates(hist):
    """smaller histories (fewer steps, then fewer / plainer filters); the create_xref step stays."""
    steps = hist['steps']
    for i in range(len(steps)):
        if steps[i][0] != 'xref':
            yield {'filters': hist['filters'], 'steps': steps[:i] + steps[i + 1:]}
    if len(hist['filters']) > 1:
        for i in range(len(hist['filters'])):
            yield {'filters': [hist['filters'][i]], 'steps': steps}
    for i, f in enumerate(hist['filters']):
        for k in ('classes', 'names', 'descs', 'flag', 'no_isolated'):
            if f.get(k):
                g = dict(f)
                g[k] = False if k == 'no_isolated' else None
                yield {'filters': hist['filters'][:i] + [g] + hist['filters'][i + 1:], 'steps': steps}


def collect(ctx, strategy, run, n, salt, budget_s=4.0, skip=lambda bucket: False):
    """A.collect for (model, history) values: no Hypothesis shrink phase; per new bucket the recorded model is reduced by
    A.shrink_model with the history held fixed, then the history is reduced greedily, and the small case is recorded."""
    import time
    from vf.core import runner
    before = set(ctx.failures)
    runner.hyp_collect(ctx, strategy, lambda c, v: run(c, v), n, salt=salt, shrink=False)
    for bucket in [b for b in list(ctx.failures) if b not in before and not skip(b)]:
        size, case, msg = ctx.failures[bucket][0]
        case = runner.unhex(case)
        if not isinstance(case, dict) or case.get('mode') != 'model':
            continue
        hist = case.get('history')
        orig, hist0 = X.normalize(case['model']), hist
        small = A.shrink_model(ctx, lambda c, m, record=False: run(c, (m, hist), record), bucket, orig, budget_s)
        if hist is not None:
            def fails(h):
                sub = runner.Ctx(ctx.prop, ctx.tier, ctx.seed, ctx.shard_index)
                sub._shrink_bucket = bucket
                try:
                    run(sub, (small, h), False)
                except runner._ShrinkHit:
                    return True
                return False
            t0 = time.time()
            progress = True
            while progress and time.time() - t0 < budget_s:
                progress = False
                for cand in _hist_candidates(hist):
                    if time.time() - t0 > budget_s:
                        break
                    if fails(cand):
                        hist, progress = cand, True
                        break
        if small == orig and hist == hist0:
            continue                            # nothing smaller found: the recorded case stays
        ev, nt = ctx.evaluations, set(ctx.nontrivial)
        run(ctx, (small, hist), False)
        ctx.evaluations, ctx.nontrivial = ev, nt


def _rich(model):
    """large-pool cases are expensive: keep those with >= 3 invokes in 35c and >= 1 in 3rc form"""
    ops = [s[1] for c in model['classes'] for m in c['methods'] if m['code'] for s in m['body'] if s[0] == 'inv']
    return sum(1 for o in ops if o < 0x74) >= 3 and any(o >= 0x74 for o in ops)


def shards(tier, seed):
    n = 12 if tier == 'quick' else 40
    sh = [('large', k) for k in range(1 if tier == 'quick' else 4)]
    sh += [('gen', k) for k in range(n)] + [('gen-arrays', k) for k in range(3 if tier == 'quick' else 8)]
    return sh + A.file_shards(tier)


def run_shard(ctx, shard):
    n = 800 if ctx.tier == 'quick' else 2500
    if shard[0] == 'gen':
        collect(ctx, cases(array_invokes=False), _run_noarr, n, salt=shard[1])
    elif shard[0] == 'large':
        strat = X.large_models(profile='invokes', array_invokes=False).filter(_rich).map(lambda m: (m, None))
        collect(ctx, strat, _run_noarr, 4 if ctx.tier == 'quick' else 12, salt=200 + shard[1])
    elif shard[0] == 'gen-arrays':
        # array receivers kept; mismatches of the known shape are not reduced (the finding has its probe cases)
        collect(ctx, cases(array_invokes=True), run_case, n, salt=100 + shard[1],
                skip=lambda b: b.endswith(':array-receiver'))
    else:
        for name in shard[1]:
            run_file(ctx, name)


def replay(ctx, case):
    if case['mode'] == 'model':
        run_model(ctx, case['model'], record=False, history=case.get('history'))
    else:
        run_file(ctx, case['name'])


def _strs(o):
    if isinstance(o, str):
        yield o
    elif isinstance(o, (list, tuple)):
        for x in o:
            for s in _strs(x):
                yield s


def _m_array(bucket, case, msg):
    """Only the failure shape of the array-receiver defect: the clause differs from the statement exactly as the defect
    model (drop '[prim', re-attribute '[Lx;' to 'Lx;') predicts, and every missing entry names an array class."""
    if not bucket.endswith(':array-receiver') or not case.get('defect_model_match'):
        return False
    missing = case.get('missing') or []
    return bool(missing) and all(any(s.startswith('[') for s in _strs(e)) for e in missing)


MATCHERS = {'array_receiver': _m_array}
