"""C10 — basic blocks partition each method at every control-flow boundary.

Generated methods (vf.gen.cfggen: if-*/if-*z, goto/16/32 forward and backward, packed and sparse switches with
duplicate targets and size 0, shared payloads, return/throw, fill-array-data, tries with typed and catch-all handlers,
payloads at the end or in the middle of the method) are written into a DEX with vf.gen.dexgen and analysed with
androguard.core.analysis.analysis.Analysis. Oracle (validity predicate against vf.model.cfg):
  * blocks sorted, first start 0, b[i].end == b[i+1].start, last end == code length, no empty block;
  * get_instructions() of a block is exactly the (identical) instruction objects at offsets in [start, end) and the
    concatenation over the blocks is the method's instruction list (every instruction once, in order);
  * every required leader - branch target, switch target, instruction after goto/if/switch/return/throw, try start,
    handler address - is the start of some block (a branch / switch-case target outside the method - cfggen makes
    those too - requires no leader; the instruction after the branching instruction still does);
  * no instruction other than the last of a block is a goto/if/switch/return/throw.
The same predicate runs over the methods of the shipped DEX/APK files (model from an own reader + own sweep).
Histories (cfg_common): a share of the cases goes on after the first analysis - the same parsed DEX object is analysed
again ('history:reanalyse:*' buckets: the clauses must hold for the blocks of every analysis, judged by identity), or a
try-free generated method gets another layout installed through EncodedMethod.set_instructions() and is analysed again
('history:set-instructions:*' buckets: judged against the model of the new layout).
"""
from vf.checks import cfg_common as K

PROPERTY = 'C10'
LEVEL = 'exploration'
RULE = ('generated: batches of 1-6 abstract methods (2-24 instructions, thorough 2-40) drawn by vf.gen.cfggen and shrunk as one value; shipped: every method of every distinct non-emptied DEX under tests/data/APK (quick: all files <= 700 kB completely, two seed-chosen larger files sampled: every method with a try + every 12th, <= 600). non-trivial = the required leaders of the method come from >= 2 different sources among branch target, switch target, after-terminator, try start, handler address; distinct = (code bytes, tries); histories (share of the cases, label history:*): 1/4 of the generated batches and every shipped DEX <= 100 kB analyse the SAME parsed DEX object again (second Analysis(d), one more MethodAnalysis(d, m)) and apply the oracle to the blocks of that later analysis; another 1/4 of the generated batches re-assemble each try-free method in another layout (1-4 nops in front, a payload moved), install its disassembly with EncodedMethod.set_instructions() and judge a new MethodAnalysis against the model of the new layout')
ASSUMPTIONS = [
    'vf/gen/dalvik_spec.py, vf/gen/asm.py, vf/gen/dexgen.py and vf/gen/cfggen.py produce well-formed code items (typed from the Dalvik/DEX specifications; the length table tiles every shipped code item)',
    'reference semantics in vf/model/cfg.py: branch and switch-target offsets are relative to the branching instruction (code units), switch falls through, goto/return*/throw do not; a try covers the instructions whose address lies in [start_addr, start_addr+insn_count)',
    "shipped files: models are computed by an own DEX reader and an own table-driven sweep; a method is skipped (counted) when androguard's disassembly tiles the code differently (that is C02's subject) or when a switch payload is not 4-byte aligned (DESIGN S-note, C40 only)",
    'block boundaries and child/father/xref offsets are byte offsets from the start of the insns array, as androguard reports them',
]
EXHAUSTIVE = False


def shards(tier, seed):
    return K.shards(PROPERTY, tier, seed)


def run_shard(ctx, shard):
    K.run_shard(ctx, PROPERTY, shard)


def replay(ctx, case):
    K.replay(ctx, PROPERTY, case)
