"""C38 — cleaned file names are portable.

Validity-predicate oracle on androguard.misc.clean_file_name. Every case runs in its own scratch directory:
the input path is <dir>/<name>; the function is called `rounds` times with unique=True (or once with unique=False);
after every round the returned file is created (so the next round collides with it, as do pre-populated
"sibling" files with the usual _N suffixes), and each returned path must satisfy, literally from the statement:
  * its last component contains none of  < > : " / \\ | ? *  and no U+0000..U+001F,
  * it does not end with a space or a dot,
  * it is at most 230 characters long,
  * dirname(result) == dirname(input),
  * (unique=True) it does not name an existing file (checked by listing the directory, not via os.path.isfile).
"""
import os
import shutil
import tempfile
import traceback
from hypothesis import strategies as st
from vf.core.runner import hyp_collect

PROPERTY = 'C38'
LEVEL = 'exploration'
RULE = ('Hypothesis: names = head + unit*rep + tail [+ "." + extension] over an alphabet rich in spaces, dots, reserved and '
        'control characters (plus arbitrary Unicode text), total length 0..600 aimed at the 230/250 boundaries, extension '
        'length 0..600 (incl. >= 230), reserved device names; directory kinds: existing, nested, missing, long (> 250 '
        'characters), relative; replace character, force_nt and unique drawn; with unique, 1-4 rounds where each returned '
        'file (and optional _N siblings) is created before the next round. A fixed table of boundary names is enumerated '
        'first. non-trivial = the name needs cleaning (reserved/control character, trailing space/dot, longer than 230) or '
        'a collision with an existing file occurred; distinct = (name, directory kind, replace, force_nt, unique, rounds)')
ASSUMPTIONS = ['reserved characters are < > : " / \\ | ? * and control characters are U+0000..U+001F (the Windows naming rules the '
               'function documents); DEL and C1 controls are not asserted',
               'length is counted in characters (code points), as the function does',
               '"existing file" = a regular file present in the directory before the call; directories are not pre-created '
               'under colliding names',
               'replace is a single character accepted by the function (documented as "replacement character")',
               'reserved device names (CON, NUL, ...) are generated as input but nothing is asserted about them (statement is silent)',
               'input names are valid Unicode (no lone surrogates)']
EXHAUSTIVE = False

RESERVED = '<>:"/\\|?*'
LIMIT = 230
# scratch directories: a memory file system when there is one (only a speed matter; /tmp on disk costs ~3 ms per case)
_SCRATCH = '/dev/shm' if os.path.isdir('/dev/shm') and os.access('/dev/shm', os.W_OK | os.X_OK) else None


# ---- one case -------------------------------------------------------------------------------------------------------

def _dir_for(kind, root):
    """-> (directory part of the input path, does it exist)"""
    if kind == 'plain':
        return root, True
    if kind == 'nested':
        d = os.path.join(root, 'sub dir', 'x.y')
        os.makedirs(d)
        return d, True
    if kind == 'missing':
        return os.path.join(root, 'nope', 'deeper'), False
    if kind == 'long':
        d = os.path.join(root, 'd' * 130, 'e' * 130)
        os.makedirs(d)
        return d, True
    if kind == 'relative':
        return '', False
    raise ValueError(kind)


def _creatable(tail):
    return tail != '' and tail not in ('.', '..') and '/' not in tail and '\x00' not in tail and len(tail.encode('utf-8')) <= 255


def _validate(ctx, case, rnd, inp, out, unique, existing_before, longname, longext):
    """all clauses on one returned path. existing_before: set of names in the directory before the call (or None)"""
    ok = True
    if not isinstance(out, str):
        ctx.fail('type', dict(case, round=rnd, observed=repr(out)), 'returned %r' % (out,))
        return False
    head, tail = os.path.split(out)
    bad = sorted({c for c in tail if c in RESERVED})
    for c in bad[:2]:
        ok = False
        ctx.fail('reserved:U+%04X' % ord(c), dict(case, round=rnd, observed=out), 'cleaned name %r contains reserved character %r' % (tail, c))
    ctl = sorted({c for c in tail if ord(c) < 0x20})
    if ctl:
        ok = False
        ctx.fail('control', dict(case, round=rnd, observed=out), 'cleaned name %r contains control character U+%04X' % (tail, ord(ctl[0])))
    if tail.endswith(' ') or tail.endswith('.'):
        ok = False
        where = 'nt' if case['force_nt'] and not longname else 'after-cut' if longname else 'short-name'
        ctx.fail('trailing:%s' % where, dict(case, round=rnd, observed=out), 'cleaned name ends with %r: %r' % (tail[-1], tail[-12:]))
    if len(tail) > LIMIT:
        ok = False
        where = 'unique-suffix' if rnd > 0 or (existing_before and not longname) else 'long-extension' if longext else 'other'
        ctx.fail('length:%s' % where, dict(case, round=rnd, observed=out), 'cleaned name has %d characters (limit %d)' % (len(tail), LIMIT))
    if os.path.dirname(out) != os.path.dirname(inp):
        ok = False
        ctx.fail('dirname', dict(case, round=rnd, observed=out), 'dirname %r, input dirname %r' % (os.path.dirname(out), os.path.dirname(inp)))
    if unique and existing_before is not None and head == os.path.split(inp)[0] and tail in existing_before:
        ok = False
        ctx.fail('unique:exists', dict(case, round=rnd, observed=out, existing=sorted(existing_before)[:6]),
                 'unique=True returned the name of an existing file: %r' % (tail,))
    return ok


def check_case(ctx, case):
    """case: {'name','dir','sep','replace','force_nt','unique','rounds','siblings'}"""
    from androguard.misc import clean_file_name
    name, kind = case['name'], case['dir']
    replace, force_nt, unique = case['replace'], bool(case['force_nt']), bool(case['unique'])
    rounds = max(1, int(case.get('rounds', 1))) if unique else 1
    siblings = list(case.get('siblings', [])) if unique else []
    last = name.rsplit('/', 1)[-1]
    has_reserved = any(c in RESERVED for c in last)
    has_control = any(ord(c) < 0x20 for c in last)
    trailing = last.endswith(' ') or last.endswith('.')
    longname = len(last) > LIMIT
    core = last[:-1] if trailing else last      # a trailing space/dot is replaced, it does not start an extension
    ext = core.rsplit('.', 1)[1] if '.' in core else ''
    longext = len(ext) >= LIMIT - 1
    root = tempfile.mkdtemp(prefix='vfc38-', dir=_SCRATCH)
    collided = False
    nt_cut = False
    try:
        d, exists = _dir_for(kind, root)
        inp = (d + case.get('sep', '/') + name) if kind != 'relative' else name
        nt_cut = force_nt and len(os.path.abspath(os.path.join(os.path.split(inp)[0], last))) > 250
        for rnd in range(rounds):
            listing = None
            real_dir = os.path.split(inp)[0]
            if unique and kind != 'relative' and os.path.isdir(real_dir):
                listing = {n for n in os.listdir(real_dir) if os.path.isfile(os.path.join(real_dir, n))}
            try:
                out = clean_file_name(inp, unique=unique, replace=replace, force_nt=force_nt)
            except Exception as e:
                ctx.fail('exception:%s' % type(e).__name__, dict(case, round=rnd), traceback.format_exc())
                break
            ok = _validate(ctx, case, rnd, inp, out, unique, listing, longname, longext)
            if not ok or rnd == rounds - 1:
                break
            # make the returned name (and the predicted next candidates) exist, so that the next round must avoid them
            head, tail = os.path.split(out)
            if not (unique and os.path.isdir(head) and head == real_dir and _creatable(tail)):
                ctx.count('round_not_materialised')
                break
            made = [tail]
            if rnd == 0:
                stem, dot, e = tail.rpartition('.')
                for sfx in siblings:
                    made.append((stem + sfx + '.' + e) if dot else tail + sfx)
                    made.append(tail + sfx)
            for n in made:
                if _creatable(n):
                    try:
                        with open(os.path.join(head, n), 'x'):
                            pass
                        collided = True
                    except FileExistsError:
                        pass
                    except OSError:
                        ctx.count('sibling_not_creatable')
    finally:
        shutil.rmtree(root, ignore_errors=True)
    nontrivial = has_reserved or has_control or trailing or longname or (collided and rounds > 1)
    labels = ['dir:' + kind, 'unique' if unique else 'not-unique']
    for flag, lab in ((has_reserved, 'reserved-char'), (has_control, 'control-char'), (trailing, 'trailing-space-or-dot'),
                      (longname, 'len>230'), (bool(ext), 'has-ext'), (longext, 'ext>=229'), (force_nt, 'force_nt'),
                      (nt_cut, 'nt-cut'), (collided and rounds > 1, 'collision'), (replace != '_', 'replace-other')):
        if flag:
            labels.append(lab)
    ctx.case(nontrivial=nontrivial, key=(name, kind, case.get('sep', '/'), replace, force_nt, unique, rounds, tuple(siblings)),
             labels=labels, sample={'name': name if len(name) < 60 else name[:25] + '...(%d chars)...' % len(name) + name[-25:],
                                    'dir': kind, 'unique': unique, 'rounds': rounds, 'force_nt': force_nt})


# ---- fixed table ----------------------------------------------------------------------------------------------------

def fixed_cases():
    names = ['', 'a', '.', '..', '...', ' ', 'a.', 'a ', 'a. ', 'a .', '.a', 'a.b', '<init>', 'a<b>c:d"e/f\\g|h?i*j', '\x00', 'a\x1fb',
             'a\tb\n', 'a\n', 'a.\n', 'CON', 'NUL.txt', 'COM1', 'LPT9.a', 'con', 'foo/bar', 'foo/', '/', 'foo//bar.', 'é' * 240,
             'a.' + 'b' * 300, 'a.' + 'b' * 228, 'a.' + 'b' * 229, 'a.' + 'b' * 230, '.' + 'b' * 229, '.' + 'b' * 230, '.' + 'b' * 231,
             'a' * 229 + ' bbb', 'a' * 229 + '.bbb', 'a' * 229 + '..bb', 'a' * 225 + ' .txt', 'a' * 226 + ' bbbb.txt', 'a' * 230,
             'a' * 231, 'a' * 229 + '.', 'a' * 229 + ' ', 'a' * 226 + '.foo', 'a' * 227 + '.foo', 'a' * 999 + '.foo', 'a' * 999,
             'a' * 219 + ' bbbbbbbbbbbbbb', 'a' * 218 + '. bbbbbbbbbbbbb', 'a' * 210 + ' . . . . . . . . . . . . . . . .', 'x' * 230 + '.' + 'y' * 230,
             ' ' * 300, '.' * 300, 'a b' * 100, 'a.b' * 100, '?' * 300]
    out = []
    for n in names:
        for kind in ('plain', 'relative') if len(n) < 200 else ('plain', 'long'):
            out.append({'name': n, 'dir': kind, 'sep': '/', 'replace': '_', 'force_nt': False, 'unique': False, 'rounds': 1, 'siblings': []})
        out.append({'name': n, 'dir': 'plain', 'sep': '/', 'replace': '_', 'force_nt': True, 'unique': False, 'rounds': 1, 'siblings': []})
        out.append({'name': n, 'dir': 'plain', 'sep': '/', 'replace': '-', 'force_nt': False, 'unique': True, 'rounds': 3, 'siblings': []})
        out.append({'name': n, 'dir': 'nested', 'sep': '/', 'replace': '_', 'force_nt': False, 'unique': True, 'rounds': 2,
                    'siblings': ['_0', '_1', '_2', '_3', '_4', '_5', '_6', '_7', '_8', '_9']})
    return out


# ---- strategies -----------------------------------------------------------------------------------------------------

_HOT = ' ' * 6 + '.' * 6 + RESERVED + '\x00\x01\t\n\r\x1f' + 'abcXYZ019_-' + '\x7f\u0085é中\U0001f600'
_hot_ch = st.sampled_from(sorted(set(_HOT)))
_weighted = st.one_of(st.sampled_from([' ', '.']), st.sampled_from(['a', 'b', 'Z', '0']), _hot_ch)
_short = st.text(_weighted, max_size=12)
_unit = st.text(st.one_of(st.sampled_from(['a', 'b', 'x']), _weighted), min_size=1, max_size=3)
_target = st.one_of(st.integers(0, 40), st.integers(0, 600), st.integers(205, 260), st.integers(226, 234))
_ext_len = st.one_of(st.integers(0, 6), st.integers(0, 6), st.integers(224, 236), st.integers(0, 600))


@st.composite
def _built_name(draw):
    head, tail, unit = draw(_short), draw(_short), draw(_unit)
    target = draw(_target)
    rep = max(0, (target - len(head) - len(tail)) // len(unit))
    name = head + unit * rep + tail
    if draw(st.integers(0, 9)) < 6:
        el = draw(_ext_len)
        eunit = draw(_unit)
        ext = (eunit * (el // len(eunit) + 1))[:el]
        name = name + '.' + ext
        if draw(st.booleans()) and len(name) > target:
            # keep the total near the target by shortening the stem
            cut = len(name) - target
            name = name[cut:] if cut < len(name) - len(ext) - 1 else name
    return name


_device = st.tuples(st.sampled_from(['CON', 'PRN', 'AUX', 'NUL', 'COM1', 'COM9', 'LPT1', 'LPT9', 'con', 'CONTENT', 'COM0']),
                    st.sampled_from(['', '.txt', '.', ' ', '.tar.gz', 'x'])).map(lambda t: t[0] + t[1])
_free = st.text(st.characters(blacklist_categories=('Cs',)), max_size=300)
_with_slash = st.tuples(_short, _short).map(lambda t: t[0].replace('\x00', '') + '/' + t[1])
_name = st.one_of(_built_name(), _built_name(), _built_name(), _free, _device, _with_slash)
_replace = st.sampled_from(['_', '_', '_', '_', '-', '#', 'x', '~', 'é'])
_siblings = st.one_of(st.just([]), st.just(['_0']), st.just(['_0', '_1', '_2']),
                      st.just(['_%d' % i for i in range(11)]))


@st.composite
def _case(draw):
    unique = draw(st.integers(0, 9)) < 6
    kind = draw(st.sampled_from(['plain', 'plain', 'plain', 'nested', 'missing', 'long', 'relative']))
    if kind == 'relative':
        unique = False          # the current directory of the harness is not a scratch directory
    siblings = draw(_siblings) if unique else []
    rounds = draw(st.integers(2 if siblings else 1, 4)) if unique else 1
    return {'name': draw(_name), 'dir': kind, 'sep': draw(st.sampled_from(['/', '/', '//'])), 'replace': draw(_replace),
            'force_nt': draw(st.integers(0, 9)) < 3, 'unique': unique, 'rounds': rounds, 'siblings': siblings}


def shards(tier, seed):
    n = 6 if tier == 'quick' else 16
    return [('fixed',)] + [('hyp', k) for k in range(n)]


def run_shard(ctx, shard):
    if shard[0] == 'fixed':
        for c in fixed_cases():
            check_case(ctx, c)
    else:
        n = 1500 if ctx.tier == 'quick' else 15000
        hyp_collect(ctx, _case(), check_case, n, salt=shard[1])


def replay(ctx, case):
    check_case(ctx, {k: case[k] for k in ('name', 'dir', 'sep', 'replace', 'force_nt', 'unique', 'rounds', 'siblings') if k in case})
