"""C19 — reverse post-order numbering is a valid topological order of the non-back edges.

Real `Graph` + `StatementBlock` nodes are built from plain digraphs whose nodes are all reachable from the
entry (what `construct()` hands to every caller of `compute_rpo`), `Graph.compute_rpo()` is run and the
result (`Node.num`, `Graph.rpo`) is judged by the validity predicate vf.model.dominators.rpo_problems:

  entry.num == 1; the numbers are a permutation of 1..n; Graph.rpo is the node list sorted by number;
  every edge u->v that does not advance (num[u] >= num[v]) closes a cycle, i.e. v reaches u over advancing
  edges only.  A numbering produced by *any* depth-first search satisfies this (a retreating edge leads to a
  DFS ancestor and tree edges advance), so no correct RPO is rejected; an edge that retreats without closing
  such a cycle is a non-back edge whose source is not numbered lower than its target.

Domain: the C18 families restricted to fully reachable graphs.
"""
import traceback
from vf.core.runner import hyp_collect
from vf.gen import digraphs as dg
from vf.model import dominators as dm

PROPERTY = 'C19'
LEVEL = 'exploration'
RULE = ('fully reachable digraphs with entry 0, each edge normal / catch / both: every such graph on <=4 nodes incl. '
        'self-loops (5 kind+order variants each; all kind assignments for <=3 nodes), every such 5-node graph without '
        'self-loops (thorough), Hypothesis families sparse / DAG+back / irreducible / ladder / dense up to 300 nodes. '
        'non-trivial = the graph has a cross edge or at least two back edges (w.r.t. a DFS in successor order); '
        'distinct = (n, edge list with kinds)')
ASSUMPTIONS = ['validity predicate vf/model/dominators.py:rpo_problems; "back edge" = an edge that closes a cycle whose other '
               'edges all advance in the numbering (sound for every DFS-derived RPO, also on irreducible graphs)',
               'graphs with unreachable nodes are outside the domain (compute_rpo numbers from len(nodes)); they are counted '
               'and skipped in the exhaustive enumeration']
EXHAUSTIVE = True


def build(case):
    from androguard.decompiler.graph import Graph
    from androguard.decompiler.basic_blocks import StatementBlock
    g = Graph()
    nodes = [StatementBlock('n%d' % i, []) for i in range(case['n'])]
    for x in nodes:
        g.add_node(x)
    for a, b, k in case['edges']:
        if k in (0, 2):
            g.add_edge(nodes[a], nodes[b])
        if k in (1, 2):
            g.add_catch_edge(nodes[a], nodes[b])
    g.entry = nodes[0]
    return g, nodes


def successor_order(case):
    n = case['n']
    nor = {i: [] for i in range(n)}
    cat = {i: [] for i in range(n)}
    for a, b, k in case['edges']:
        if k in (0, 2) and b not in nor[a]:
            nor[a].append(b)
        if k in (1, 2) and b not in cat[a]:
            cat[a].append(b)
    return {i: nor[i] + [b for b in cat[i] if b not in nor[i]] for i in range(n)}


def check_graph(ctx, case):
    n = case['n']
    succ = successor_order(case)
    if len(dm.reachable(succ, 0)) != n:
        ctx.count('skipped_not_fully_reachable')
        return
    parent, pre, post, kinds = dm.dfs(succ, 0)
    nback = sum(1 for k in kinds.values() if k == 'back')
    ncross = sum(1 for k in kinds.values() if k == 'cross')
    has_catch = any(k for _, _, k in case['edges'])
    labels = ['fam:' + case.get('family', '?'), 'cross-edge' if ncross else 'no-cross-edge',
              'back>=2' if nback >= 2 else 'back=%d' % nback, 'catch-edges' if has_catch else 'normal-only',
              'n<=5' if n <= 5 else 'n<=20' if n <= 20 else 'n<=100' if n <= 100 else 'n<=300' if n <= 300 else 'n>1000' if n > 1000 else 'n<=1000']
    ctx.case(nontrivial=bool(ncross) or nback >= 2, key=(n, tuple(map(tuple, case['edges']))), labels=labels,
             sample={'n': n, 'edges': case['edges'][:40], 'back': nback, 'cross': ncross})
    rec = {'n': n, 'edges': case['edges'], 'family': case.get('family', '?')}
    cls = 'catch' if has_catch else 'plain'
    try:
        g, nodes = build(case)
        g.compute_rpo()
        num = {i: nodes[i].num for i in range(n)}
        index = {x: i for i, x in enumerate(nodes)}
        order = [index.get(x, -1) for x in g.rpo]
    except Exception:
        ctx.fail('exception:%s' % cls, rec, traceback.format_exc())
        return
    probs = dm.rpo_problems(n, succ, 0, num, order)
    if probs:
        rec['num'] = [num[i] for i in range(n)]
        rec['rpo'] = order
        for clause in sorted({c for c, _ in probs}):
            ctx.fail('%s:%s' % (clause, cls), rec, '; '.join(d for c, d in probs if c == clause)[:600])
        return
    # history: the same Graph object is modified (one more edge between existing nodes, normal or catch, derived
    # deterministically from the case) and numbered again: the new numbering must be valid for the *modified* graph.
    h = (n * 131 + sum((a * 31 + b * 17 + k * 7 + i) for i, (a, b, k) in enumerate(case['edges']))) & 0xffff
    if n >= 3 and h % 4 == 1:
        _remove_history(ctx, case, rec, cls, g, nodes, succ, h)
        return
    if h % 4 == 3:
        _second_graph_history(ctx, case, rec, cls, nodes, succ)
        return
    if n < 2 or h % 2:
        return
    a, b, k = (h >> 1) % n, (h >> 5) % n, (h >> 9) % 2
    extra = [a, b, k]
    case2 = {'n': n, 'edges': list(case['edges']) + [extra], 'family': case.get('family', '?')}
    succ2 = successor_order(case2)
    if succ2 == succ:
        return
    try:
        (g.add_catch_edge if k else g.add_edge)(nodes[a], nodes[b])
        g.compute_rpo()
        num2 = {i: nodes[i].num for i in range(n)}
        order2 = [index.get(x, -1) for x in g.rpo]
    except Exception:
        ctx.fail('renumber:exception:%s' % cls, dict(rec, added_edge=extra), traceback.format_exc())
        return
    ctx.count('renumbered_after_adding_edge')
    probs = dm.rpo_problems(n, succ2, 0, num2, order2)
    if probs:
        rec = dict(rec, added_edge=extra, num=[num2[i] for i in range(n)], rpo=order2)
        for clause in sorted({c for c, _ in probs}):
            ctx.fail('renumber:%s:%s' % (clause, 'catch' if k else 'plain'), rec,
                     'after adding edge %r and calling compute_rpo() again: ' % (extra,) + '; '.join(d for c, d in probs if c == clause)[:600])


def _remove_history(ctx, case, rec, cls, g, nodes, succ, h):
    """history: one non-entry node is removed from the same Graph object (Graph.remove_node, as simplify() does with
    empty nodes) and the graph is numbered again; if the remaining nodes are still all reachable, the new numbering must
    be valid for the remaining graph."""
    n = case['n']
    r = 1 + (h >> 3) % (n - 1)
    keep = [i for i in range(n) if i != r]
    new = {old: k for k, old in enumerate(keep)}
    succ2 = {new[i]: [new[b] for b in succ[i] if b != r] for i in keep}
    if len(dm.reachable(succ2, 0)) != n - 1:
        ctx.count('remove_history_skipped_unreachable')
        return
    try:
        g.remove_node(nodes[r])
        g.compute_rpo()
        num2 = {new[i]: nodes[i].num for i in keep}
        index = {nodes[i]: new[i] for i in keep}
        order2 = [index.get(x, -1) for x in g.rpo]
    except Exception:
        ctx.fail('remove:exception:%s' % cls, dict(rec, removed_node=r), traceback.format_exc())
        return
    ctx.count('renumbered_after_removing_node')
    probs = dm.rpo_problems(n - 1, succ2, 0, num2, order2)
    if probs:
        rec = dict(rec, removed_node=r, num=[num2[i] for i in range(n - 1)], rpo=order2)
        for clause in sorted({c for c, _ in probs}):
            ctx.fail('remove:%s:%s' % (clause, cls), rec,
                     'after remove_node(n%d) and compute_rpo() again (remaining nodes renumbered 0..%d): ' % (r, n - 2)
                     + '; '.join(d for c, d in probs if c == clause)[:600])
        return
    # ... and the removed node object is put back with its former edges: the numbering must again be valid for the
    # original graph
    try:
        g.add_node(nodes[r])
        for a, b, k in case['edges']:
            if r in (a, b):
                if k in (0, 2):
                    g.add_edge(nodes[a], nodes[b])
                if k in (1, 2):
                    g.add_catch_edge(nodes[a], nodes[b])
        g.compute_rpo()
    except Exception:
        ctx.fail('readd:exception:%s' % cls, dict(rec, removed_node=r), traceback.format_exc())
        return
    ctx.count('renumbered_after_putting_node_back')
    _validate(ctx, 'readd', dict(rec, removed_and_readded_node=r), cls, n, succ, g, nodes,
              'after remove_node(n%d), add_node(n%d) and its former edges again' % (r, r))


def _validate(ctx, bucket, rec, cls, n, succ, g, nodes, what):
    num = {i: nodes[i].num for i in range(n)}
    index = {x: i for i, x in enumerate(nodes)}
    order = [index.get(x, -1) for x in g.rpo]
    probs = dm.rpo_problems(n, succ, 0, num, order)
    if probs:
        rec = dict(rec, num=[num[i] for i in range(n)], rpo=order)
        for clause in sorted({c for c, _ in probs}):
            ctx.fail('%s:%s:%s' % (bucket, clause, cls), rec, what + ': ' + '; '.join(d for c, d in probs if c == clause)[:600])
    return not probs


def _second_graph_history(ctx, case, rec, cls, nodes, succ):
    """history: a second Graph object is built over the SAME node objects (same edges, inserted in reverse order) and
    numbered: numbering one graph must not depend on another graph having been numbered before."""
    from androguard.decompiler.graph import Graph
    n = case['n']
    try:
        g2 = Graph()
        for x in nodes:
            g2.add_node(x)
        for a, b, k in reversed(case['edges']):
            if k in (0, 2):
                g2.add_edge(nodes[a], nodes[b])
            if k in (1, 2):
                g2.add_catch_edge(nodes[a], nodes[b])
        g2.entry = nodes[0]
        g2.compute_rpo()
    except Exception:
        ctx.fail('second-graph:exception:%s' % cls, rec, traceback.format_exc())
        return
    ctx.count('second_graph_over_same_nodes_numbered')
    _validate(ctx, 'second-graph', dict(rec, history='second graph over the same node objects'), cls, n, succ, g2, nodes,
              'second Graph built over the same node objects')


def big_graph(n, seed):
    """deterministic large but *shallow* graph (all nodes reachable; depth <= 40 so that the recursive walk of the code
    under test stays far from the interpreter's recursion limit): nodes in layers, every node has a parent in the
    previous layer, plus edges to the next one or two layers (diamonds c->t, c->j, t->j), a few catch edges and back
    edges; derived from `seed` with a fixed linear congruential sequence."""
    x = [seed & 0x7fffffff]

    def rnd(m):
        x[0] = (x[0] * 1103515245 + 12345) & 0x7fffffff
        return (x[0] >> 8) % m
    nl = 12 + rnd(28)
    layer_of = [0] + [1 + (i * (nl - 1)) // (n - 1) for i in range(n - 1)]      # node 0 alone in layer 0
    layers = {}
    for i, l in enumerate(layer_of):
        layers.setdefault(l, []).append(i)
    edges = []
    for i in range(1, n):
        prev = layers[layer_of[i] - 1]
        edges.append([prev[rnd(len(prev))], i, 0])
    for _ in range(n // 2):
        a = rnd(n)
        la = layer_of[a]
        kind = rnd(10)
        if kind == 0 and la > 0:
            tgt = layers[rnd(la)]                      # back edge to an earlier layer
        else:
            tgt = layers.get(la + 1 + rnd(2))          # forward / cross edge
        if tgt:
            edges.append([a, tgt[rnd(len(tgt))], 1 if kind == 1 else 0])
    return {'n': n, 'edges': edges, 'family': 'big'}


NSPLIT4 = 16


def shards(tier, seed):
    sh = [('small',), ('big',)] + [('exh4', k) for k in range(NSPLIT4)]
    if tier == 'thorough':
        sh += [('exh5', k, 64) for k in range(64)]
        sh += [('hyp', k) for k in range(24)]
    else:
        sh += [('hyp', k) for k in range(12)]
    return sh


def _variants(n, prs, mask, rnd, nrand):
    m = bin(mask).count('1')
    yield dg.graph_from_mask(n, mask, prs)
    if m:
        yield dg.graph_from_mask(n, mask, prs, descending=True)
        yield dg.graph_from_mask(n, mask, prs, kinds=[1] * m)
        for j in range(nrand):
            yield dg.graph_from_mask(n, mask, prs, kinds=dg.kinds_from_int(m, rnd.getrandbits(2 * m), 3 if j else 2),
                                     descending=bool(j & 1))


def _connected_mask(n, prs, mask):
    succ = {i: [] for i in range(n)}
    for i, (a, b) in enumerate(prs):
        if mask >> i & 1:
            succ[a].append(b)
    return len(dm.reachable(succ, 0)) == n


def _preimport():
    """Import everything androguard will need *before* Hypothesis starts: a module imported lazily inside the first
    generated example perturbs Hypothesis' generation, which would make a shard depend on what its worker ran before."""
    import androguard.core.dex                      # noqa: F401
    import androguard.core.analysis.analysis        # noqa: F401
    import androguard.decompiler.decompile          # noqa: F401
    import androguard.decompiler.graph              # noqa: F401
    import androguard.decompiler.dataflow           # noqa: F401
    import androguard.decompiler.control_flow       # noqa: F401
    import androguard.decompiler.writer             # noqa: F401


def run_shard(ctx, shard):
    _preimport()
    import random
    kind = shard[0]
    rnd = random.Random('C19:%d:%r' % (ctx.seed, shard))
    if kind == 'small':
        for n in (1, 2, 3):
            prs = dg.pairs(n)
            for mask in range(1 << len(prs)):
                if not _connected_mask(n, prs, mask):
                    ctx.count('skipped_not_fully_reachable')
                    continue
                m = bin(mask).count('1')
                for v in range(3 ** m):
                    check_graph(ctx, dg.graph_from_mask(n, mask, prs, kinds=dg.kinds_from_int(m, v, 3)))
                if m:
                    check_graph(ctx, dg.graph_from_mask(n, mask, prs, descending=True))
    elif kind == 'exh4':
        prs = dg.pairs(4)
        per = (1 << 16) // NSPLIT4
        for mask in range(shard[1] * per, (shard[1] + 1) * per):
            if not _connected_mask(4, prs, mask):
                ctx.count('skipped_not_fully_reachable')
                continue
            for c in _variants(4, prs, mask, rnd, 2):
                check_graph(ctx, c)
    elif kind == 'exh5':
        prs = dg.pairs(5, self_loops=False)
        per = (1 << 20) // shard[2]
        for mask in range(shard[1] * per, (shard[1] + 1) * per):
            if not _connected_mask(5, prs, mask):
                ctx.count('skipped_not_fully_reachable')
                continue
            m = bin(mask).count('1')
            check_graph(ctx, dg.graph_from_mask(5, mask, prs))
            check_graph(ctx, dg.graph_from_mask(5, mask, prs, kinds=dg.kinds_from_int(m, rnd.getrandbits(m)),
                                                descending=bool(mask & 1)))
        for n in (5, 6):
            prs = dg.pairs(n)
            for _ in range(3000):
                mask = rnd.getrandbits(len(prs)) & rnd.getrandbits(len(prs))
                m = bin(mask).count('1')
                c = dg.graph_from_mask(n, mask, prs, kinds=dg.kinds_from_int(m, rnd.getrandbits(2 * m), 3))
                c['family'] = 'sampled%d' % n
                check_graph(ctx, c)
    elif kind == 'big':
        # graphs well beyond a few hundred nodes (sizes at which an implementation may switch strategy: the decompiler
        # raises the recursion limit to 5000); sizes and seeds are drawn by Hypothesis, the graph is expanded from them
        from hypothesis import strategies as st
        sizes = st.sampled_from([600, 1200, 1300, 2000, 2600] if ctx.tier == 'quick' else [600, 1200, 1251, 1300, 2000, 2600, 3500, 4200])
        hyp_collect(ctx, st.tuples(sizes, st.integers(0, 1 << 30)), lambda c, v: check_graph(c, big_graph(*v)),
                    6 if ctx.tier == 'quick' else 40, salt=99, shrink=False)
    else:
        quick = ctx.tier == 'quick'
        hyp_collect(ctx, dg.digraph(max_n=300, unreachable=False), check_graph, 250 if quick else 1500, salt=shard[1])


def replay(ctx, case):
    check_graph(ctx, {'n': case['n'], 'edges': [list(e) for e in case['edges']], 'family': case.get('family', 'replay')})
