#!/venv/bin/python
"""One-off generator of the committed certificate fixtures in this directory (run offline, by hand).

    /venv/bin/python /verif/fixtures/certs/mkcerts.py [--force]

For every key type below it writes
    <name>.key.pk8    private key, PKCS#8 DER, unencrypted   (test keys: never use for anything real)
    <name>.cert.der   self-signed X.509 certificate, DER
    <name>.spki.der   SubjectPublicKeyInfo of that certificate, DER
Key generation is random, so the files are generated ONCE and committed; checks only ever read them.
Existing files are kept unless --force is given. Nothing here imports androguard.
"""
import datetime
import os
import sys

from cryptography import x509
from cryptography.hazmat.primitives import hashes, serialization
from cryptography.hazmat.primitives.asymmetric import dsa, ec, rsa
from cryptography.x509.oid import NameOID

HERE = os.path.dirname(os.path.abspath(__file__))

SPECS = [
    # name, key factory, digest used for the self-signature, subject CN, serial
    ('rsa2048', lambda: rsa.generate_private_key(65537, 2048), hashes.SHA256(), 'vf rsa2048', 0x1001),
    ('rsa1024', lambda: rsa.generate_private_key(65537, 1024), hashes.SHA256(), 'vf rsa1024', 0x1002),
    ('ecp256', lambda: ec.generate_private_key(ec.SECP256R1()), hashes.SHA256(), 'vf ec p256', 0x1003),
    ('ecp384', lambda: ec.generate_private_key(ec.SECP384R1()), hashes.SHA512(), 'vf ec p384', 0x1004),
    ('dsa2048', lambda: dsa.generate_private_key(2048), hashes.SHA256(), 'vf dsa2048', 0x1005),
    ('rsa2048b', lambda: rsa.generate_private_key(65537, 2048), hashes.SHA512(), 'vf rsa2048 é中', 0x7fffffffffffffff),
]


def main():
    force = '--force' in sys.argv
    for name, factory, digest, cn, serial in SPECS:
        paths = {k: os.path.join(HERE, '%s.%s' % (name, k)) for k in ('key.pk8', 'cert.der', 'spki.der')}
        if not force and all(os.path.exists(p) for p in paths.values()):
            print('keep', name)
            continue
        key = factory()
        subject = x509.Name([
            x509.NameAttribute(NameOID.COUNTRY_NAME, 'US'),
            x509.NameAttribute(NameOID.ORGANIZATION_NAME, 'verif fixtures'),
            x509.NameAttribute(NameOID.COMMON_NAME, cn),
        ])
        cert = (x509.CertificateBuilder()
                .subject_name(subject).issuer_name(subject)
                .public_key(key.public_key()).serial_number(serial)
                .not_valid_before(datetime.datetime(2020, 1, 1))
                .not_valid_after(datetime.datetime(2050, 1, 1))
                .add_extension(x509.BasicConstraints(ca=True, path_length=None), critical=True)
                .sign(key, digest))
        with open(paths['key.pk8'], 'wb') as f:
            f.write(key.private_bytes(serialization.Encoding.DER, serialization.PrivateFormat.PKCS8,
                                      serialization.NoEncryption()))
        with open(paths['cert.der'], 'wb') as f:
            f.write(cert.public_bytes(serialization.Encoding.DER))
        with open(paths['spki.der'], 'wb') as f:
            f.write(key.public_key().public_bytes(serialization.Encoding.DER,
                                                  serialization.PublicFormat.SubjectPublicKeyInfo))
        print('wrote', name)


if __name__ == '__main__':
    main()
