import com.sun.source.tree.ClassTree;
import com.sun.source.tree.CompilationUnitTree;
import com.sun.source.tree.ExpressionTree;
import com.sun.source.tree.Tree;
import com.sun.source.tree.VariableTree;
import com.sun.source.util.JavacTask;
import com.sun.source.util.SourcePositions;
import com.sun.source.util.Trees;

import java.io.BufferedReader;
import java.io.ByteArrayOutputStream;
import java.io.InputStreamReader;
import java.io.OutputStream;
import java.io.PrintStream;
import java.io.StringWriter;
import java.net.URI;
import java.nio.charset.StandardCharsets;
import java.util.ArrayList;
import java.util.Collections;
import java.util.HashMap;
import java.util.List;
import java.util.Locale;
import java.util.Map;

import javax.tools.Diagnostic;
import javax.tools.DiagnosticCollector;
import javax.tools.FileObject;
import javax.tools.ForwardingJavaFileManager;
import javax.tools.JavaCompiler;
import javax.tools.JavaFileManager;
import javax.tools.JavaFileObject;
import javax.tools.SimpleJavaFileObject;
import javax.tools.StandardJavaFileManager;
import javax.tools.ToolProvider;

/**
 * C23 ground truth: which UTF-16 code units does javac + the JVM give a string literal?
 *
 * Protocol (stdin/stdout, ASCII lines). Request: a line "N", then N lines, each the hex of the UTF-16BE
 * code units of the complete source text of one candidate literal (quotes included). Reply: N lines
 *   OK <hex of UTF-16BE code units of the run-time String>      the text is exactly one string literal
 *   NOTLIT                                                        compiles, but the initializer is not exactly that one literal token
 *   ERR <first javac error code>                                  javac rejects it
 * then "." on its own line. "Q" ends the session.
 *
 * Each batch becomes one class (at most 2000 literals per class; Python keeps each literal far below the
 * 65535-byte constant limit) with  public static final String S<i> = <literal on its own line> ;
 * compiled in-process (javax.tools, sources passed as UTF-16 CharSequence, so no file encoding is
 * involved), class bytes kept in memory, loaded, fields read by reflection. If a batch fails to compile
 * the literals are compiled one at a time.
 */
public class LitUnits {
    static final int MAX_PER_CLASS = 2000;
    static final JavaCompiler COMPILER = ToolProvider.getSystemJavaCompiler();
    static StandardJavaFileManager STD;
    static int serial = 0;

    static final class Src extends SimpleJavaFileObject {
        final String code;
        Src(String name, String code) {
            super(URI.create("string:///" + name + ".java"), Kind.SOURCE);
            this.code = code;
        }
        @Override public CharSequence getCharContent(boolean ignoreEncodingErrors) { return code; }
    }

    static final class Out extends SimpleJavaFileObject {
        final ByteArrayOutputStream bos = new ByteArrayOutputStream();
        Out(String name) { super(URI.create("mem:///" + name + ".class"), Kind.CLASS); }
        @Override public OutputStream openOutputStream() { return bos; }
    }

    static final class MemFM extends ForwardingJavaFileManager<JavaFileManager> {
        final Map<String, Out> classes = new HashMap<>();
        MemFM(JavaFileManager fm) { super(fm); }
        @Override public JavaFileObject getJavaFileForOutput(Location l, String className, JavaFileObject.Kind k, FileObject sibling) {
            Out o = new Out(className);
            classes.put(className, o);
            return o;
        }
    }

    static final class MemLoader extends ClassLoader {
        final Map<String, Out> classes;
        MemLoader(Map<String, Out> c) { super(LitUnits.class.getClassLoader()); classes = c; }
        @Override protected Class<?> findClass(String name) throws ClassNotFoundException {
            Out o = classes.get(name);
            if (o == null) throw new ClassNotFoundException(name);
            byte[] b = o.bos.toByteArray();
            return defineClass(name, b, 0, b.length);
        }
    }

    static String unhex16(String hex) {
        StringBuilder sb = new StringBuilder(hex.length() / 4);
        for (int i = 0; i + 4 <= hex.length(); i += 4) sb.append((char) Integer.parseInt(hex.substring(i, i + 4), 16));
        return sb.toString();
    }

    static String hex16(String s) {
        StringBuilder sb = new StringBuilder(s.length() * 4);
        final String H = "0123456789abcdef";
        for (int i = 0; i < s.length(); i++) {
            int c = s.charAt(i);
            sb.append(H.charAt(c >> 12)).append(H.charAt((c >> 8) & 15)).append(H.charAt((c >> 4) & 15)).append(H.charAt(c & 15));
        }
        return sb.toString();
    }

    /** Compile lits[from..to) as one class. Returns null when javac reports an error (and to-from > 1). */
    static String[] compile(List<String> lits, int from, int to) throws Exception {
        String cname = "L" + (serial++);
        StringBuilder sb = new StringBuilder();
        sb.append("public class ").append(cname).append(" {\n");
        int[] start = new int[to - from];
        int[] end = new int[to - from];
        for (int i = from; i < to; i++) {
            sb.append("public static final String S").append(i - from).append(" =\n");
            start[i - from] = sb.length();
            sb.append(lits.get(i));
            end[i - from] = sb.length();
            sb.append("\n;\n");
        }
        sb.append("}\n");
        DiagnosticCollector<JavaFileObject> diags = new DiagnosticCollector<>();
        MemFM fm = new MemFM(STD);
        StringWriter sink = new StringWriter();
        JavacTask task = (JavacTask) COMPILER.getTask(sink, fm, diags,
                List.of("-proc:none", "-Xlint:none", "-nowarn", "-XDsuppressNotes", "-XDallowStringFolding=false"), null,
                Collections.singletonList(new Src(cname, sb.toString())));
        String err = null;
        boolean[] isLit = new boolean[to - from];
        try {
            Iterable<? extends CompilationUnitTree> units = task.parse();
            SourcePositions sp = Trees.instance(task).getSourcePositions();
            for (CompilationUnitTree cu : units) {
                for (Tree td : cu.getTypeDecls()) {
                    if (!(td instanceof ClassTree)) continue;
                    for (Tree m : ((ClassTree) td).getMembers()) {
                        if (!(m instanceof VariableTree)) continue;
                        VariableTree v = (VariableTree) m;
                        String nm = v.getName().toString();
                        if (!nm.startsWith("S")) continue;
                        int k;
                        try { k = Integer.parseInt(nm.substring(1)); } catch (NumberFormatException e) { continue; }
                        if (k < 0 || k >= to - from) continue;
                        ExpressionTree init = v.getInitializer();
                        if (init != null && init.getKind() == Tree.Kind.STRING_LITERAL
                                && sp.getStartPosition(cu, init) == start[k] && sp.getEndPosition(cu, init) == end[k]) {
                            isLit[k] = true;
                        }
                    }
                }
            }
            boolean parseErr = false;
            for (Diagnostic<? extends JavaFileObject> d : diags.getDiagnostics()) {
                if (d.getKind() == Diagnostic.Kind.ERROR) { parseErr = true; break; }
            }
            if (!parseErr) {       // every lexical error is reported by the parser already
                task.analyze();
                task.generate();
            }
        } catch (RuntimeException | Error e) {
            err = "crash:" + e.getClass().getName();
        }
        for (Diagnostic<? extends JavaFileObject> d : diags.getDiagnostics()) {
            if (d.getKind() == Diagnostic.Kind.ERROR) { err = d.getCode(); break; }
        }
        if (err != null) {
            if (to - from > 1) return null;
            return new String[]{"ERR " + err.replaceAll("\\s+", "_")};
        }
        Class<?> cls = new MemLoader(fm.classes).loadClass(cname);
        String[] res = new String[to - from];
        String[] vals = new String[to - from];
        for (java.lang.reflect.Field f : cls.getDeclaredFields()) {
            String nm = f.getName();
            if (nm.startsWith("S")) vals[Integer.parseInt(nm.substring(1))] = (String) f.get(null);
        }
        for (int k = 0; k < to - from; k++) {
            if (!isLit[k]) { res[k] = "NOTLIT"; continue; }
            res[k] = "OK " + hex16(vals[k]);
        }
        return res;
    }

    static void solve(List<String> lits, int from, int to, String[] out) throws Exception {
        String[] r = compile(lits, from, to);
        if (r != null) {
            System.arraycopy(r, 0, out, from, to - from);
            return;
        }
        // some literal of the batch is rejected: bisect, then one class per literal (errors cannot leak between literals)
        if (to - from > 4) {
            int mid = (from + to) >>> 1;
            solve(lits, from, mid, out);
            solve(lits, mid, to, out);
            return;
        }
        for (int i = from; i < to; i++) {
            String[] one = compile(lits, i, i + 1);
            out[i] = one[0];
        }
    }

    public static void main(String[] args) throws Exception {
        Locale.setDefault(Locale.ROOT);
        if (COMPILER == null) { System.out.println("NOCOMPILER"); return; }
        STD = COMPILER.getStandardFileManager(null, Locale.ROOT, StandardCharsets.UTF_8);
        BufferedReader in = new BufferedReader(new InputStreamReader(System.in, StandardCharsets.US_ASCII));
        PrintStream ps = new PrintStream(System.out, false, "US-ASCII");
        ps.println("READY");
        ps.flush();
        String line;
        while ((line = in.readLine()) != null) {
            line = line.trim();
            if (line.equals("Q")) break;
            if (line.isEmpty()) continue;
            int n = Integer.parseInt(line);
            List<String> lits = new ArrayList<>(n);
            for (int i = 0; i < n; i++) lits.add(unhex16(in.readLine().trim()));
            String[] out = new String[n];
            for (int from = 0; from < n; from += MAX_PER_CLASS) solve(lits, from, Math.min(n, from + MAX_PER_CLASS), out);
            for (String o : out) ps.println(o);
            ps.println(".");
            ps.flush();
        }
    }
}
