package vfrt;

/** Loop-iteration budget used by the C21 driver: the decompiled sources are instrumented with vfrt.VfTick.t() at the
 *  top of every loop body, so that a decompiled loop that does not terminate is reported deterministically
 *  (no wall-clock oracle). */
public final class VfTick {
    public static final class Limit extends Error {
        public Limit() { super("loop budget exhausted", null, false, false); }
    }
    public static long limit = 100000;
    private static long n;
    public static void reset() { n = 0; }
    public static void t() { if (++n > limit) throw new Limit(); }
    private VfTick() {}
}
