import java.io.*;
import java.lang.reflect.*;
import java.net.*;
import java.nio.charset.StandardCharsets;
import java.nio.file.*;
import java.util.*;
import javax.tools.*;

/** C21 driver: compiles decompiled classes one by one with the system Java compiler (so that a rejected source is
 *  attributed to exactly one class), loads them and runs static methods on argument tuples by reflection.
 *
 *  usage: java -cp /verif/.build VfRun JOBFILE [callTimeoutMs]   |   VfRun --server [callTimeoutMs]  (job file paths on stdin)
 *  JOBFILE lines (tab separated):
 *    K  className  originalSource.java  runSource.java  outDirOriginal  outDirRun
 *         compile originalSource (the decompiler's text: "accepted by a Java compiler" is judged on it), then
 *         runSource (same text + loop ticks) which is the one loaded. Prints  C className OK | C className JAVAC line: msg
 *         | C className INSTR msg
 *    M  methodName  paramTypes(I/J string)       selects the method of the current class
 *    A  idx  arg...                              one call; prints  R idx = value | R idx ! exceptionClass |
 *                                                R idx ? TICKS | R idx ? TIMEOUT | R idx ? SKIP reason
 */
public class VfRun {
    static JavaCompiler jc;
    static String selfCp;

    static StandardJavaFileManager fm;
    static DiagnosticCollector<JavaFileObject> diag;

    static String compile(String src, String outDir) throws IOException {
        if (fm == null) fm = jc.getStandardFileManager(null, Locale.ROOT, StandardCharsets.UTF_8);
        diag = new DiagnosticCollector<>();
        Files.createDirectories(Paths.get(outDir));
        fm.setLocation(StandardLocation.CLASS_OUTPUT, Collections.singletonList(new File(outDir)));
        fm.setLocation(StandardLocation.CLASS_PATH, Collections.singletonList(new File(selfCp)));
        List<String> opts = Arrays.asList("-nowarn", "-proc:none", "-Xlint:none", "-encoding", "UTF-8");
        Boolean ok = jc.getTask(new StringWriter(), fm, diag, opts, null,
                                fm.getJavaFileObjects(new File(src))).call();
        StringBuilder sb = new StringBuilder();
        for (Diagnostic<? extends JavaFileObject> d : diag.getDiagnostics()) {
            if (d.getKind() == Diagnostic.Kind.ERROR) {
                if (sb.length() > 0) sb.append(" || ");
                sb.append(d.getLineNumber()).append(": ").append(d.getMessage(Locale.ROOT).replace('\n', ' ').replace('\t', ' '));
            }
        }
        if (ok != null && ok && sb.length() == 0) return null;
        if (sb.length() == 0) sb.append("0: compiler reported failure without a diagnostic");
        return sb.toString();
    }

    /** one long-lived worker executes the calls; it is abandoned (daemon) and replaced when a call times out */
    static final class Worker extends Thread {
        final java.util.concurrent.SynchronousQueue<Object[]> in = new java.util.concurrent.SynchronousQueue<>();
        final java.util.concurrent.SynchronousQueue<String> out = new java.util.concurrent.SynchronousQueue<>();
        Worker() { super(null, null, "call", 1 << 22); setDaemon(true); }
        public void run() {
            try {
                while (true) {
                    Object[] job = in.take();
                    Method m = (Method) job[0];
                    Object[] args = (Object[]) job[1];
                    String res;
                    vfrt.VfTick.reset();
                    try {
                        Object v = m.invoke(null, args);
                        res = "= " + v;
                    } catch (InvocationTargetException e) {
                        Throwable c = e.getCause();
                        res = (c instanceof vfrt.VfTick.Limit) ? "? TICKS" : "! " + c.getClass().getName();
                    } catch (Throwable t) {
                        res = "! harness:" + t;
                    }
                    out.put(res);
                }
            } catch (InterruptedException e) { }
        }
    }

    public static void main(String[] a) throws Exception {
        jc = ToolProvider.getSystemJavaCompiler();
        PrintStream out = new PrintStream(new FileOutputStream(FileDescriptor.out), true, "UTF-8");
        if (jc == null) { out.println("FATAL no system Java compiler"); System.exit(3); }
        selfCp = new File(VfRun.class.getProtectionDomain().getCodeSource().getLocation().toURI()).getPath();
        if (a[0].equals("--server")) {
            // one job file path (+ optional call timeout) per stdin line; "DONE" terminates each answer
            long timeout = a.length > 1 ? Long.parseLong(a[1]) : 20000;
            BufferedReader in = new BufferedReader(new InputStreamReader(System.in, StandardCharsets.UTF_8));
            String line;
            while ((line = in.readLine()) != null) {
                line = line.trim();
                if (line.isEmpty()) continue;
                if (line.equals("QUIT")) break;
                try {
                    process(line, timeout, out);
                } catch (Throwable t) {
                    out.println("FATAL " + t.toString().replace('\n', ' '));
                }
                out.println("DONE");
                out.flush();
            }
            System.exit(0);
        }
        process(a[0], a.length > 1 ? Long.parseLong(a[1]) : 20000, out);
        out.println("DONE");
        out.flush();
        System.exit(0);
    }

    static Worker worker = null;

    static void process(String jobFile, long timeout, PrintStream out) throws Exception {
        Class<?> cur = null;
        Method meth = null;
        String skip = null;
        String types = null;
        try (BufferedReader r = Files.newBufferedReader(Paths.get(jobFile), StandardCharsets.UTF_8)) {
            String line;
            while ((line = r.readLine()) != null) {
                if (line.isEmpty()) continue;
                String[] f = line.split("\t");
                if (f[0].equals("K")) {
                    cur = null; meth = null; skip = null;
                    String err = compile(f[2], f[4]);
                    if (err != null) { out.println("C " + f[1] + " JAVAC " + err); skip = "javac"; continue; }
                    err = f[3].equals(f[2]) ? null : compile(f[3], f[5]);
                    if (err != null) { out.println("C " + f[1] + " INSTR " + err); skip = "instr"; continue; }
                    try {
                        URLClassLoader cl = new URLClassLoader(new URL[]{new File(f[5]).toURI().toURL()}, VfRun.class.getClassLoader());
                        cur = Class.forName(f[1], true, cl);
                        out.println("C " + f[1] + " OK");
                    } catch (Throwable t) {
                        out.println("C " + f[1] + " LOAD " + t);
                        skip = "load";
                    }
                } else if (f[0].equals("M")) {
                    meth = null;
                    types = f.length > 2 ? f[2] : "";
                    if (cur == null) continue;
                    Class<?>[] pt = new Class<?>[types.length()];
                    for (int i = 0; i < pt.length; i++) pt[i] = types.charAt(i) == 'J' ? long.class : int.class;
                    try {
                        meth = cur.getDeclaredMethod(f[1], pt);
                        meth.setAccessible(true);
                        if (!Modifier.isStatic(meth.getModifiers())) { meth = null; skip = "method not static"; }
                        else skip = null;
                    } catch (NoSuchMethodException e) {
                        skip = "NOMETHOD " + f[1] + "(" + types + ")";
                    }
                } else if (f[0].equals("A")) {
                    String idx = f[1];
                    if (meth == null) { out.println("R " + idx + " ? SKIP " + skip); continue; }
                    Object[] args = new Object[types.length()];
                    for (int i = 0; i < args.length; i++)
                        args[i] = types.charAt(i) == 'J' ? (Object) Long.valueOf(Long.parseLong(f[2 + i])) : (Object) Integer.valueOf(Integer.parseInt(f[2 + i]));
                    if (worker == null) { worker = new Worker(); worker.start(); }
                    worker.in.put(new Object[]{meth, args});
                    String got = worker.out.poll(timeout, java.util.concurrent.TimeUnit.MILLISECONDS);
                    if (got == null) {
                        out.println("R " + idx + " ? TIMEOUT");
                        worker = null;                                   // still spinning; abandoned
                        meth = null; skip = "TIMEOUT earlier";
                    } else {
                        out.println("R " + idx + " " + got);
                    }
                }
            }
        }
    }
}
