#!/usr/bin/env python3
"""Single entry point:  run.py <Cxx> <quick|thorough> [--replay FILE]

Re-executes itself under /venv/bin/python with a pinned environment so that every check is a
function of (working tree of the repository, VERIF_SEED, tier). The repository under test is
/repo unless VERIF_REPO points at a scratch copy (used only for sensitivity experiments).
Exit: 0 held, 1 VIOLATION (line printed), 2 harness error.
"""
import os
import sys

VERIF = os.path.dirname(os.path.abspath(__file__))
PY = '/venv/bin/python'


def reexec():
    repo = os.environ.get('VERIF_REPO', '/repo')
    env = dict(os.environ)
    env['VF_CHILD'] = '1'
    env['PYTHONHASHSEED'] = '0'
    env['PYTHONPATH'] = os.pathsep.join([repo, VERIF, os.path.join(VERIF, '.deps')])
    env['PYTHONDONTWRITEBYTECODE'] = '1'
    env['LOGURU_LEVEL'] = 'CRITICAL'
    env['VERIF_REPO'] = repo
    env['ANDROGUARD_VERIF'] = '1'
    os.execve(PY, [PY, os.path.abspath(__file__)] + sys.argv[1:], env)


def main():
    if len(sys.argv) < 3:
        print(__doc__)
        return 2
    prop, tier = sys.argv[1].upper(), sys.argv[2]
    if tier not in ('quick', 'thorough'):
        print('tier must be quick or thorough')
        return 2
    try:
        seed = int(os.environ.get('VERIF_SEED', '1') or '1')
    except ValueError:
        seed = 1
    try:
        from vf.core import runner
        runner._quiet()
        import importlib
        mod = importlib.import_module('vf.checks.' + prop.lower())
        import androguard
        repo = os.path.realpath(os.environ['VERIF_REPO'])
        if not os.path.realpath(androguard.__file__).startswith(repo + os.sep):
            raise runner.HarnessError('androguard imported from %s, not from %s' % (androguard.__file__, repo))
        if '--replay' in sys.argv:
            return runner.run_replay(mod, sys.argv[sys.argv.index('--replay') + 1])
        return runner.run_check(mod, tier, seed)
    except SystemExit:
        raise
    except BaseException:
        import traceback
        sys.stderr.write('HARNESS ERROR (exit 2)\n' + traceback.format_exc())
        return 2


if __name__ == '__main__':
    if os.environ.get('VF_CHILD') != '1':
        reexec()
    sys.exit(main())
