#!/bin/bash
# usage: tools/apply_fix.sh fixes/Cxx-slug.diff "fix: message" [finding-id ...]
# Applies one repair to /repo as a single unguarded "fix:" commit and records the sha in known_findings.d/Cxx.json
# (entries whose id is listed, or — when none is listed — every entry of that property whose commit is PENDING).
set -e
D=$(readlink -f "$1"); MSG="$2"; shift 2
P=$(basename "$D" | cut -d- -f1)
case "$MSG" in fix:*) ;; *) echo "message must start with fix:"; exit 2;; esac
git -C /repo diff --quiet || { echo "/repo has uncommitted changes"; exit 2; }
git -C /repo apply --index "$D"
git -C /repo commit -q -m "$MSG"
SHA=$(git -C /repo rev-parse --short HEAD)
echo "$P $SHA $(basename $D)"
python3 - "$P" "$SHA" "$(basename $D)" "$@" <<'PY'
import json, sys, os
p, sha, fix, ids = sys.argv[1], sys.argv[2], sys.argv[3], sys.argv[4:]
fn = '/verif/known_findings.d/%s.json' % p
if os.path.exists(fn):
    es = json.load(open(fn)); n = 0
    for e in es:
        if e.get('status') == 'fixed' and ((ids and e['id'] in ids) or (not ids and e.get('commit') in (None, 'PENDING'))):
            e['commit'] = sha; e['fix'] = fix; n += 1
    json.dump(es, open(fn, 'w'), indent=1)
    print('  findings updated:', n)
else:
    print('  no findings file for', p)
PY
python3 /verif/tools/mkfindings.py
