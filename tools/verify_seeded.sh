#!/bin/bash
# usage: tools/verify_seeded.sh <seeded-dir> [--suite] [--checks "C01 C02"]
# Confirms a seeded breaking change: (1) demo passes on a clean scratch worktree of /repo HEAD, (2) patch applies,
# (3) demo fails with the patch, (4) optionally the pinned test-suite still passes with the patch, (5) runs the named
# checks (default: meta.json "property") against the patched worktree and reports their exit status.
set -u
D=$(readlink -f "$1"); shift
SUITE=0; CHECKS=""
while [ $# -gt 0 ]; do case "$1" in --suite) SUITE=1;; --checks) CHECKS="$2"; shift;; esac; shift; done
[ -z "$CHECKS" ] && CHECKS=$(python3 -c "import json;print(json.load(open('$D/meta.json'))['property'])")
DEMO=$(ls "$D"/demo* | head -1)
exec > >(tee "$D/verified.$(echo $CHECKS | tr " " "_").txt") 2>&1
echo "verified $(date -u +%FT%TZ) repo HEAD $(git -C /repo rev-parse --short HEAD) checks: $CHECKS suite=$SUITE"
W=$(mktemp -d /tmp/vfseed.XXXXXX)
git -C /repo worktree add --detach -f "$W" HEAD >/dev/null 2>&1 || { echo "worktree failed"; exit 2; }
cleanup(){ git -C /repo worktree remove --force "$W" >/dev/null 2>&1; rm -rf "$W"; }
trap cleanup EXIT
rundemo(){ (cd "$W" && PYTHONPATH="$W" PYTHONDONTWRITEBYTECODE=1 timeout 600 /venv/bin/python "$DEMO" >/tmp/$$.demo.out 2>&1); echo $?; }
r0=$(rundemo); echo "demo on clean tree: exit=$r0 (want 0)"
git -C "$W" apply "$D/patch.diff" || { echo "PATCH DOES NOT APPLY"; exit 2; }
r1=$(rundemo); echo "demo on patched tree: exit=$r1 (want !=0)"; tail -3 /tmp/$$.demo.out; rm -f /tmp/$$.demo.out
if [ $SUITE = 1 ]; then
  (cd "$W" && PYTHONPATH="$W" PYTHONDONTWRITEBYTECODE=1 /venv/bin/python -m pytest -q -p no:cacheprovider --timeout=900 --continue-on-collection-errors --junitxml="$W/j.xml" >/dev/null 2>&1
   python3 - "$W/j.xml" <<'PY'
import sys, json, xml.etree.ElementTree as ET
base=set(json.load(open('/root/.vp/BASELINE.json'))['stable_pass'])
ok=set()
for tc in ET.parse(sys.argv[1]).getroot().iter('testcase'):
    if not any(c.tag in ('failure','error','skipped') for c in tc):
        ok.add(tc.get('classname')+'::'+tc.get('name'))
missing=sorted(base-ok)
print('suite: %d/%d baseline tests pass'%(len(base)-len(missing),len(base)), 'MISSING: '+', '.join(missing) if missing else '')
PY
  )
fi
for c in $CHECKS; do
  VERIF_EVIDENCE_DIR="$W/.evidence" VERIF_REPO="$W" /verif/run.py "$c" "${TIER:-quick}" 2>&1 | grep -E "VIOLATION|KNOWN|seed=|HARNESS" | head -6
  echo "  -> check $c exit=${PIPESTATUS[0]}"
done
