#!/usr/bin/env python3
"""Regenerates the generated block of DESIGN.md (between the AUTO markers): table of fixed / open findings from
known_findings.json and the seeded-change detection matrix from seeded/*/meta.json + verified.txt."""
import json, os, re, glob
V = os.path.dirname(os.path.dirname(os.path.abspath(__file__)))
kf = json.load(open(os.path.join(V, 'known_findings.json')))['findings']
out = []
out.append('### 8.1 Genuine defects found by the checks (from known_findings.json)\n')
out.append('| prop | finding | status | /repo commit | what failed |\n|---|---|---|---|---|')
for e in kf:
    what = e['what'].replace('|', '\\|').replace('\n', ' ')
    if len(what) > 230:
        what = what[:227] + '...'
    out.append('| %s | %s | %s | %s | %s |' % (e['property'], e['id'], e['status'], e.get('commit', '') or '', what))
nfix = sum(1 for e in kf if e['status'] == 'fixed'); nopen = sum(1 for e in kf if e['status'] == 'open')
out.append('\n%d entries repaired by `fix:` commits, %d open findings.\n' % (nfix, nopen))
out.append('### 8.2 Seeded breaking changes and which checks catch them\n')
out.append('Each change was written by a fresh sub-agent that saw only the property text and a scratch worktree; each was '
           'confirmed here (demo passes on the clean tree, fails with the patch) with `tools/verify_seeded.sh` and the named '
           'check(s) were run against the patched tree (`exit=1` = caught).\n')
out.append('| seeded change | property | what it breaks / what it needs | checks run -> exit | pinned suite |\n|---|---|---|---|---|')
for d in sorted(glob.glob(os.path.join(V, 'seeded', '*'))):
    if not os.path.isdir(d):
        continue
    m = json.load(open(os.path.join(d, 'meta.json')))
    vt = ''
    for fn in sorted(glob.glob(os.path.join(d, 'verified*.txt'))):
        vt += open(fn).read()
    checks = dict(re.findall(r'-> check (C\d+) exit=(\d+)', vt))
    suite = re.findall(r'suite: (\d+/\d+) baseline tests pass\s*(MISSING.*)?', vt)
    s = (suite[-1][0] + (' ' + suite[-1][1] if suite[-1][1] else '')) if suite else 'relevant test files (sub-agent); see meta.json'
    summ = (m.get('summary') or m.get('what_it_breaks') or '').replace('|', '\\|').replace('\n', ' ')
    need = (m.get('needs_to_manifest') or '').replace('|', '\\|').replace('\n', ' ')
    txt = summ[:160] + (' — needs: ' + need[:160] if need else '')
    out.append('| %s | %s | %s | %s | %s |' % (os.path.basename(d), m.get('property'), txt,
               ', '.join('%s -> %s' % kv for kv in sorted(checks.items())) or 'not run', s))
block = '\n'.join(out) + '\n'
p = os.path.join(V, 'DESIGN.md')
s = open(p).read()
a, b = '<!-- AUTO:BEGIN -->', '<!-- AUTO:END -->'
if a in s:
    s = s[:s.index(a) + len(a)] + '\n' + block + s[s.index(b):]
else:
    s += '\n' + a + '\n' + block + b + '\n'
open(p, 'w').write(s)
print('report: %d findings, %d seeded' % (len(kf), len(glob.glob(os.path.join(V, 'seeded', '*/meta.json')))))
