#!/venv/bin/python
"""Development-time tool: (re)generates the committed signing-key pool in fixtures/keys/ used by vf/gen/cms.py (C32).
Never run by a check (key generation is slow and not reproducible); the fixtures are loaded at check time.

For every key kind (rsa: RSA-2048, ec: NIST P-256, dsa: DSA-2048/256) it writes
  <kind>_a.key.pem  <kind>_a.cert.der     signer A: private key (PKCS#8, unencrypted) + self-signed certificate
  <kind>_b.key.pem  <kind>_b.cert.der     signer B: a different key, different issuer name and serial number
  <kind>_forged_a.cert.der                a certificate carrying A's issuer name and serial number but B's public key
                                          (self-signed with B's key) - the "swapped certificate" an attacker could put
                                          into the SignedData without being able to re-sign
Usage: tools/mkkeys.py [--force]     then   tools/mkkeys.py --selftest   (needs the openssl command line tool)
"""
import datetime
import os
import subprocess
import sys
import tempfile

from cryptography import x509
from cryptography.hazmat.primitives import hashes, serialization
from cryptography.hazmat.primitives.asymmetric import dsa, ec, rsa
from cryptography.x509.oid import NameOID

V = os.path.dirname(os.path.dirname(os.path.abspath(__file__)))
OUT = os.path.join(V, 'fixtures', 'keys')
SERIAL = {'rsa': (0x5A17C0DE0001, 0x0B0B0002), 'ec': (0x5A17C0DE0003, 0x0B0B0004), 'dsa': (0x5A17C0DE0005, 0x0B0B0006)}


def name(kind, who):
    return x509.Name([
        x509.NameAttribute(NameOID.COUNTRY_NAME, 'XX'),
        x509.NameAttribute(NameOID.ORGANIZATION_NAME, 'verif fixtures'),
        x509.NameAttribute(NameOID.COMMON_NAME, 'vf %s signer %s' % (kind, who)),
    ])


def gen_key(kind):
    if kind == 'rsa':
        return rsa.generate_private_key(public_exponent=65537, key_size=2048)
    if kind == 'ec':
        return ec.generate_private_key(ec.SECP256R1())
    return dsa.generate_private_key(key_size=2048)


def cert(subject, serial, public_key, signing_key):
    b = (x509.CertificateBuilder().subject_name(subject).issuer_name(subject).serial_number(serial)
         .public_key(public_key)
         .not_valid_before(datetime.datetime(2020, 1, 1)).not_valid_after(datetime.datetime(2050, 1, 1)))
    return b.sign(signing_key, hashes.SHA256()).public_bytes(serialization.Encoding.DER)


def write(fn, data):
    with open(os.path.join(OUT, fn), 'wb') as f:
        f.write(data)


def generate():
    os.makedirs(OUT, exist_ok=True)
    for kind in ('rsa', 'ec', 'dsa'):
        ka, kb = gen_key(kind), gen_key(kind)
        sa, sb = SERIAL[kind]
        for who, k, serial in (('a', ka, sa), ('b', kb, sb)):
            write('%s_%s.key.pem' % (kind, who), k.private_bytes(
                serialization.Encoding.PEM, serialization.PrivateFormat.PKCS8, serialization.NoEncryption()))
            write('%s_%s.cert.der' % (kind, who), cert(name(kind, who.upper()), serial, k.public_key(), k))
        write('%s_forged_a.cert.der' % kind, cert(name(kind, 'A'), sa, kb.public_key(), kb))
        print('generated', kind)


def selftest():
    """Independent validation of vf/gen/cms.py: every generated SignedData must be accepted by `openssl cms -verify`
    over the detached .SF content (and rejected after a one-byte change of the content)."""
    sys.path.insert(0, V)
    from vf.gen import cms as G
    pool = G.load_pool()
    ok = bad = 0
    with tempfile.TemporaryDirectory() as d:
        for kind in ('rsa', 'ec', 'dsa'):
            for digest in ('sha1', 'sha256'):
                for attrs in (False, True):
                    for two in (False, True):
                        sf = b'Signature-Version: 1.0\r\nCreated-By: selftest %s %s\r\n\r\n' % (kind.encode(), digest.encode())
                        specs = [G.SignerSpec(kind, 'a', digest, attrs, signing_time=attrs)]
                        if two:
                            specs.append(G.SignerSpec(kind, 'b', digest, attrs))
                        blob = G.build(pool, specs, sf).dump()
                        for content, expect in ((sf, 0), (sf[:-5] + b'X' + sf[-4:], 1)):
                            open(os.path.join(d, 'sig.der'), 'wb').write(blob)
                            open(os.path.join(d, 'c.sf'), 'wb').write(content)
                            r = subprocess.run(['openssl', 'cms', '-verify', '-binary', '-inform', 'DER', '-in',
                                                os.path.join(d, 'sig.der'), '-content', os.path.join(d, 'c.sf'),
                                                '-noverify', '-out', os.devnull], capture_output=True)
                            good = (r.returncode == 0) == (expect == 0)
                            ok += good
                            bad += not good
                            if not good:
                                print('MISMATCH', kind, digest, attrs, two, expect, r.stderr.decode()[-300:])
    print('selftest: %d as expected, %d mismatches' % (ok, bad))
    return 1 if bad else 0


if __name__ == '__main__':
    if '--selftest' in sys.argv:
        sys.exit(selftest())
    if os.path.exists(os.path.join(OUT, 'rsa_a.key.pem')) and '--force' not in sys.argv:
        sys.exit('fixtures/keys already populated; use --force to replace the committed pool')
    generate()
