#!/bin/bash
# usage: tools/take_seeded.sh Cxx [extra-checks...]  — import round-2 variants C,D from /tmp/seedout_Cxx_r2, verify, clean up
P=$1; shift
R=${ROUND:-2}; case $R in 2) VS="C D";; 3) VS="E F";; esac
for v in $VS; do
  S=/tmp/seedout_${P}_r$R/$v
  [ -f $S/patch.diff ] || { echo "$P-$v missing"; continue; }
  mkdir -p /verif/seeded/$P-$v; cp $S/patch.diff $S/demo.py $S/meta.json /verif/seeded/$P-$v/
  echo "== $P-$v"; /verif/tools/verify_seeded.sh /verif/seeded/$P-$v | grep -E "demo on|exit=|PATCH"
  for c in "$@"; do /verif/tools/verify_seeded.sh /verif/seeded/$P-$v --checks "$c" | grep -E "exit=" | grep check; done
done
git -C /repo worktree remove --force /tmp/seedwt_${P}_r$R 2>/dev/null; rm -rf /tmp/seedout_${P}_r$R /tmp/p${R}_$P.txt
