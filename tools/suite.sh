#!/bin/bash
# usage: tools/suite.sh [repo-dir]   — runs the pinned test suite (BASELINE.json cmd) on a tree and compares with stable_pass
R=${1:-/repo}
J=$(mktemp /tmp/vfsuite.XXXXXX.xml)
(cd "$R" && PYTHONPATH="$R" PYTHONDONTWRITEBYTECODE=1 /venv/bin/python -m pytest -ra -q -p no:cacheprovider --timeout=900 --continue-on-collection-errors --junitxml="$J" >/dev/null 2>&1)
python3 - "$J" <<'PY'
import sys, json, xml.etree.ElementTree as ET
base=set(json.load(open('/root/.vp/BASELINE.json'))['stable_pass'])
ok=set()
for tc in ET.parse(sys.argv[1]).getroot().iter('testcase'):
    if not any(c.tag in ('failure','error','skipped') for c in tc):
        ok.add(tc.get('classname')+'::'+tc.get('name'))
missing=sorted(base-ok)
print('suite: %d/%d baseline tests pass'%(len(base)-len(missing),len(base)), ('MISSING: '+', '.join(missing)) if missing else '')
sys.exit(1 if missing else 0)
PY
rc=$?; rm -f "$J"; exit $rc
