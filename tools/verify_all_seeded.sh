#!/bin/bash
# usage: tools/verify_all_seeded.sh [parallel] [filter-regex]  — full confirmation (demo both ways, pinned suite with the patch,
# own property's check + cross checks) of every seeded change; records go to seeded/<id>/verified.*.txt
cd "$(dirname "$0")/.."
P=${1:-6}; F=${2:-.}
extra() { case "$1" in C01-B) echo "C01 C02";; C05-C) echo "C05 C03";; C40-B) echo "C40 C11 C10";; *) echo "${1%%-*}";; esac; }
export -f extra
ls seeded | grep -E "$F" | while read d; do echo "$d"; done | \
  xargs -P "$P" -I{} bash -c 'c=$(extra {}); rm -f seeded/{}/verified.*.txt; VERIF_JOBS=3 tools/verify_seeded.sh seeded/{} --suite --checks "$c" > /dev/null 2>&1; echo "{} $(grep -hE "suite:|-> check" seeded/{}/verified.*.txt | tr "\n" " ")"'
