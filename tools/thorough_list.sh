#!/bin/bash
# usage: tools/thorough_list.sh C03 C04 ...  — thorough tier of the listed checks, one line each (+ violation lines)
cd "$(dirname "$0")/.."
./setup.sh >/dev/null 2>&1
for p in "$@"; do
  s=$(date +%s); out=$(./run.py $p thorough 2>&1); rc=$?
  echo "$p rc=$rc $(( $(date +%s) - s ))s $(echo "$out" | grep -c '^VIOLATION') viol | $(echo "$out" | tail -1 | cut -c1-120)"
  echo "$out" | grep -A1 '^VIOLATION' | head -6
done
