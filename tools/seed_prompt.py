#!/usr/bin/env python3
"""usage: tools/seed_prompt.py Cxx  -> creates scratch worktree + output dir and prints the prompt for a fresh sub-agent.
The prompt contains only the property text; nothing from /verif is shown to the agent."""
import json, os, subprocess, sys
V = os.path.dirname(os.path.dirname(os.path.abspath(__file__)))
pid = sys.argv[1]
RND = int(sys.argv[2]) if len(sys.argv) > 2 else 1
ROUND2 = RND >= 2
VA, VB = 'ABCDEFGH'[2 * (RND - 1)], 'ABCDEFGH'[2 * (RND - 1) + 1]
p = [json.loads(l) for l in open(os.path.join(V, 'properties.jsonl')) if json.loads(l)['id'] == pid][0]
W = '/tmp/seedwt_%s%s' % (pid, ('_r%d' % RND) if ROUND2 else '')
O = '/tmp/seedout_%s%s' % (pid, ('_r%d' % RND) if ROUND2 else '')
prev = ''
if ROUND2:
    import glob
    lines = []
    for d in sorted(glob.glob(os.path.join(V, 'seeded', pid + '-*'))):
        m = json.load(open(os.path.join(d, 'meta.json')))
        lines.append('  - ' + (m.get('summary') or m.get('what_it_breaks') or '')[:400].replace('\n', ' '))
    prev = ('\nOther people have already produced the following breaking changes for this property; yours must be DIFFERENT (another function, another mechanism, another aspect of the statement) — do not redo these:\n' + '\n'.join(lines) + '\n')
if not os.path.exists(W):
    subprocess.check_call(['git', '-C', '/repo', 'worktree', 'add', '--detach', '-f', W, 'HEAD'], stdout=subprocess.DEVNULL, stderr=subprocess.DEVNULL)
os.makedirs(O, exist_ok=True)
print(f"""You are given a scratch git worktree of the open-source Python project androguard (a pure-Python parser for Android DEX/APK/binary-XML/ARSC formats with bytecode analysis and the DAD decompiler) at {W}. Work ONLY inside {W} and {O}. Do not read, list or touch /verif, /repo, /root or other /tmp directories (other people work there; what you produce must be independent of them).

Androguard is supposed to satisfy this semantic property:

  id: {p['id']}
  title: {p['title']}
  statement: {p['statement']}
  quantified over: {p['quantifier']['text']}
  code it is anchored in: {', '.join(p['anchors']['files'])}

{prev}
Your task: produce TWO different, realistic code changes ({VA} and {VB}, in different functions/mechanisms if possible) to androguard, each of which BREAKS this property, such that for each change:
 (a) the code still imports and runs;
 (b) the project's existing test suite still passes exactly as before — run at least the relevant test files, e.g. `cd {W} && PYTHONPATH={W} /venv/bin/python -m pytest -q -p no:cacheprovider tests/test_<x>.py` (the whole suite takes ~6 minutes; these tests fail even on the unchanged code and can be ignored: test_apk.py::APKTest::testAPK, testCustomPermissionProtectionLevel, testFeatures, testFrameworkResAPK, testMultipleLocaleAppName, test_strings.py::StringTest::testMUTF8). IMPORTANT: set PYTHONPATH={W}, otherwise python imports the installed copy instead of your worktree;
 (c) the breakage needs something specific to manifest — a particular unusual input or boundary value, a multi-step sequence of operations, a specific ordering/interleaving, or two cooperating sites that each look fine alone — NOT something ordinary use or a trivial smoke test exposes at once. Think of the kind of bug a developer introduces while refactoring, optimising or "simplifying" code and that survives code review and CI: an off-by-one at a boundary, a wrong mask/shift for a rare width, a cache keyed too coarsely, a special case dropped, a condition flipped for a rare branch, state not reset, etc. Do not make the change obviously malicious or gratuitous (no `if x == 12345:` triggers).

For each change deliver in {O}/{VA} and {O}/{VB}:
  patch.diff  — `git -C {W} diff` of that change alone (reset the worktree with `git -C {W} checkout -- .` between {VA} and {VB});
  demo.py     — a self-contained demonstration run as `cd {W} && PYTHONPATH={W} /venv/bin/python {O}/{VA}/demo.py`: exits 0 (prints OK) on the UNCHANGED code and exits non-zero with a clear message when the change is applied. It builds its input in code or uses files under {W}/tests/data (some big APKs there are emptied placeholders; check file sizes) and asserts behaviour that follows from the property statement (not incidental behaviour);
  meta.json   — {{"property": "{p['id']}", "variant": "{VA}", "summary": "...", "what_it_breaks": "...", "needs_to_manifest": "...", "files_changed": [...], "tests_run": "command + result"}}.
Verify both directions yourself (demo passes with `git stash`/clean tree, fails with the patch; the tests pass with the patch). If the property already fails on the unchanged code for the inputs you first try (androguard has bugs), pick a different aspect of the property that currently works and break that. Leave the worktree clean (`git -C {W} checkout -- .`) when done. Final answer: a short description of {VA} and {VB} and the exact commands you ran with their outcomes.""")
