#!/usr/bin/env python3
"""Regenerates MANIFEST.json from manifest.d/Cxx.json + the check modules present (vf/checks/cNN.py)."""
import json, os, sys
V = os.path.dirname(os.path.dirname(os.path.abspath(__file__)))
src = {'checks': {}, 'notes': 'All checks: ./run.py <id> <tier>; VERIF_SEED seeds every Hypothesis run; known_findings.json is read-only at run time (generated from known_findings.d/ by tools/mkfindings.py at development time).', 'not_applicable': {}}
for fn in sorted(os.listdir(os.path.join(V, 'manifest.d'))):
    if fn.endswith('.json'):
        src['checks'][fn[:-5]] = json.load(open(os.path.join(V, 'manifest.d', fn)))
if os.path.exists(os.path.join(V, 'tools', 'not_applicable.json')):
    src['not_applicable'] = json.load(open(os.path.join(V, 'tools', 'not_applicable.json')))
props = [json.loads(l) for l in open(os.path.join(V, 'properties.jsonl'))]
READY = set(open(os.path.join(V, 'tools', 'ready.txt')).read().split())   # the lead lists a property here once its check is integrated (fixes applied, quiet on /repo)
checks, na = [], []
for p in props:
    pid = p['id']
    meta = src['checks'].get(pid)
    if meta and pid in READY and os.path.exists(os.path.join(V, 'vf', 'checks', pid.lower() + '.py')):
        checks.append({
            'property_id': pid,
            'quick_cmd': './run.py %s quick' % pid,
            'thorough_cmd': './run.py %s thorough' % pid,
            'evidence_file': 'evidence/%s.json' % pid,
            'replay_cmd_template': './run.py %s quick --replay {path}' % pid,
            'engine': 'vf',
            'level_claimed': {'category': meta['category'], 'text': meta['text'], 'design_ref': 'DESIGN.md §4 ' + pid},
            'level_note': meta['note'],
            'technique': meta['technique'],
        })
    else:
        na.append({'property_id': pid, 'reason': src.get('not_applicable', {}).get(pid, 'check not built yet (planned in DESIGN.md §4); not claimed until it runs quietly on the unchanged tree')})
m = {
    'version': 1,
    'setup_cmd': './setup.sh',
    'hooks': {'guard': 'ANDROGUARD_VERIF', 'enable': 'none needed: run.py sets ANDROGUARD_VERIF=1 for form; all instrumentation is applied from the harness side inside the check process',
              'baseline_off_cmd': 'cd /repo && /venv/bin/python -m pytest -ra -q -p no:cacheprovider --timeout=900 --continue-on-collection-errors',
              'source_commits': [], 'add_only': True},
    'engines': [{'name': 'vf', 'path': 'run.py', 'serves_properties': [c['property_id'] for c in checks],
                 'kind_free_text': 'property-based testing (Hypothesis 6.168, seeded by VERIF_SEED) + exhaustive enumeration of small finite spaces + byte-level fuzzing, against independent writers/reference models in vf/gen and vf/model'}],
    'checks': checks,
    'notes': src.get('notes', ''),
    'not_applicable': na,
}
json.dump(m, open(os.path.join(V, 'MANIFEST.json'), 'w'), indent=1)
print('checks:', len(checks), 'not claimed:', len(na))
