#!/bin/bash
# usage: tools/mut.sh <patchfile|-e 'sed-expr' file> -- <Cxx> [tier]     (sensitivity experiment in a scratch worktree)
# Applies a change to a scratch git worktree of /repo HEAD (+ uncommitted /repo changes are NOT included),
# runs the check with VERIF_REPO pointing at it, then removes the worktree.
set -u
W=$(mktemp -d /tmp/vfmut.XXXXXX)
git -C /repo worktree add --detach -f "$W" HEAD >/dev/null 2>&1 || { echo "worktree failed"; exit 2; }
cleanup(){ git -C /repo worktree remove --force "$W" >/dev/null 2>&1; rm -rf "$W"; }
trap cleanup EXIT
if [ "$1" = "-e" ]; then
  sed -i -E "$2" "$W/$3" || exit 2
  shift 3
else
  git -C "$W" apply "$1" || { echo "patch failed"; exit 2; }
  shift 1
fi
[ "$1" = "--" ] && shift
git -C "$W" diff --stat | tail -1
rc=0
for p in "$@"; do
  case "$p" in quick|thorough) continue;; esac
  VERIF_EVIDENCE_DIR="$W/.evidence" VERIF_REPO="$W" /verif/run.py "$p" "${TIER:-quick}" | grep -E "VIOLATION|KNOWN|seed=" | head -8
  r=${PIPESTATUS[0]}; echo "  -> $p exit=$r"; [ $r -ne 0 ] && rc=$r
done
exit $rc
