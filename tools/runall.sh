#!/bin/bash
# usage: tools/runall.sh [tier] — runs every claimed check once with the current VERIF_SEED and prints one line per check
cd "$(dirname "$0")/.."
T=${1:-quick}
for p in $(python3 -c "import json;print(' '.join(c['property_id'] for c in json.load(open('MANIFEST.json'))['checks']))"); do
  s=$(date +%s); out=$(./run.py $p $T 2>&1); rc=$?; e=$(( $(date +%s) - s ))
  echo "$p rc=$rc ${e}s $(echo "$out" | grep -c '^VIOLATION') viol, $(echo "$out" | grep -c '^KNOWN-FINDING') known | $(echo "$out" | tail -1 | cut -c1-110)"
done
