#!/usr/bin/env python3
"""Development-time tool: merge known_findings.d/Cxx.json (each: a JSON list of entries) into known_findings.json.
Never run by a check. Entry:
 {"property":"Cxx","id":"short-slug","status":"open"|"fixed","what":"<what fails, one line>",
  "matcher":"<name in the check module's MATCHERS>"   (open only),
  "probe":[case,...]        (open: concrete replay cases that still fail while the defect exists),
  "regression":[case,...]   (fixed: concrete replay cases that failed before the fix),
  "commit":"<sha of the fix: commit in /repo>" (fixed), "line":"fixed: property=Cxx <commit> <what failed>" (fixed)}
"""
import json, os, tempfile
V = os.path.dirname(os.path.dirname(os.path.abspath(__file__)))
out = []
d = os.path.join(V, 'known_findings.d')
for fn in sorted(os.listdir(d)):
    if fn.endswith('.json'):
        for e in json.load(open(os.path.join(d, fn))):
            assert e['status'] in ('open', 'fixed') and e['property'] == fn[:-5].split('-')[0], (fn, e.get('id'))
            if e['status'] == 'fixed':
                e['line'] = 'fixed: property=%s %s %s' % (e['property'], e.get('commit', 'PENDING'), e['what'])
            out.append(e)
fd, tmp = tempfile.mkstemp(dir=V)
with os.fdopen(fd, 'w') as f:
    json.dump({'findings': out}, f, indent=1)
    f.write('\n')
os.replace(tmp, os.path.join(V, 'known_findings.json'))
print('findings:', len(out))
